//! Scripted I/O object (`AsyncRead + AsyncWrite`) and scripted inner transport.
//!
//! Read items:  n > 0 "n more bytes arrive" (a poll_read takes min(n, room) of them, the rest stays
//! at the head of the queue), 0 end of stream (sticky), -1 Pending, -2 error.
//! Write items: n > 0 "accept up to n bytes", 0 `Ok(0)`, -1 Pending, -2 error.
//! Flush items: 1 Ok, -1 Pending, -2 error.
//! An I/O call that finds its queue empty is answered Pending and counted in `x` (the
//! specification scripted fewer calls than the code made).  With an RNG the queues refill
//! themselves (open-loop random behaviours) and everything drawn is logged for a later replay.

use crate::msgs::Rng;
use aldrin_core::message::Message;
use aldrin_core::tokio::TokioTransportError;
use aldrin_core::transport::AsyncTransport;
use serde_json::{json, Value};
use std::cell::RefCell;
use std::collections::VecDeque;
use std::io::{Error as IoError, ErrorKind};
use std::pin::Pin;
use std::rc::Rc;
use std::sync::atomic::{AtomicUsize, Ordering};
use std::sync::Arc;
use std::task::{Context, Poll, Wake};
use tokio::io::{AsyncRead, AsyncWrite, ReadBuf};

const MAX_IO_CALLS_PER_API_CALL: usize = 300_000;

#[derive(Default)]
pub struct CountWaker(AtomicUsize);

impl CountWaker {
    pub fn count(&self) -> usize {
        self.0.load(Ordering::Relaxed)
    }
}

impl Wake for CountWaker {
    fn wake(self: Arc<Self>) {
        self.0.fetch_add(1, Ordering::Relaxed);
    }
}

pub fn io_kind(e: &IoError) -> String {
    match e.kind() {
        ErrorKind::UnexpectedEof => "eof".into(),
        ErrorKind::WriteZero => "wz".into(),
        ErrorKind::ConnectionReset => "io".into(),
        k => format!("{k:?}"),
    }
}

pub fn err_kind(e: &TokioTransportError) -> String {
    match e {
        TokioTransportError::Io(e) => io_kind(e),
        TokioTransportError::Serialize(_) => "ser".into(),
        TokioTransportError::Deserialize(_) => "de".into(),
    }
}

pub struct IoState {
    input: Arc<Vec<u8>>,
    rpos: usize,
    rq: VecDeque<i64>,
    wq: VecDeque<i64>,
    fq: VecDeque<i64>,
    expect_out: Vec<u8>,
    wpos: usize,
    rng: Option<Rng>,
    // per API call
    pub rd: usize,
    pub wn: usize,
    pub wm: bool,
    pub ev: Vec<&'static str>,
    pub x: usize,
    calls: usize,
    s_log: Vec<i64>,
    fs_log: Vec<i64>,
}

impl IoState {
    pub fn new(input: Arc<Vec<u8>>, expect_out: Vec<u8>, rng: Option<Rng>) -> Self {
        Self {
            input,
            rpos: 0,
            rq: VecDeque::new(),
            wq: VecDeque::new(),
            fq: VecDeque::new(),
            expect_out,
            wpos: 0,
            rng,
            rd: 0,
            wn: 0,
            wm: true,
            ev: Vec::new(),
            x: 0,
            calls: 0,
            s_log: Vec::new(),
            fs_log: Vec::new(),
        }
    }

    pub fn begin_call(&mut self, reads: &[i64], writes: &[i64], flushes: &[i64]) {
        self.rq.extend(reads.iter().copied());
        self.wq = writes.iter().copied().collect();
        self.fq = flushes.iter().copied().collect();
        self.rd = 0;
        self.wn = 0;
        self.wm = true;
        self.ev.clear();
        self.x = 0;
        self.calls = 0;
        self.s_log = if reads.is_empty() { writes.to_vec() } else { reads.to_vec() };
        self.fs_log = flushes.to_vec();
    }

    /// Returns the script of the call (given, or drawn); items the code did not ask for count as x.
    pub fn end_call(&mut self) -> (Vec<i64>, Vec<i64>) {
        self.x += self.wq.len() + self.fq.len();
        self.wq.clear();
        self.fq.clear();
        (std::mem::take(&mut self.s_log), std::mem::take(&mut self.fs_log))
    }

    pub fn note(&mut self, what: &'static str) {
        if self.ev.len() < 16 {
            self.ev.push(what);
        }
    }

    fn tick(&mut self) {
        self.calls += 1;
        if self.calls > MAX_IO_CALLS_PER_API_CALL {
            panic!("runaway: more than {MAX_IO_CALLS_PER_API_CALL} I/O calls inside one call of the transport");
        }
    }

    fn draw_read(&mut self) {
        let remaining = self.input.len() - self.rpos;
        if let Some(rng) = self.rng.as_mut() {
            let item = if remaining == 0 {
                match rng.below(20) {
                    0..=16 => -1,
                    17..=18 => 0,
                    _ => -2,
                }
            } else {
                match rng.below(100) {
                    0..=13 => -1,
                    14 => 0,
                    15 => -2,
                    16..=40 => 1,
                    41..=55 => 1 + rng.below(6) as i64,
                    56..=65 => 1 + rng.below(64) as i64,
                    66..=75 => 1 + rng.below(9000) as i64,
                    76..=85 => 1 + rng.below(140_000) as i64,
                    _ => remaining as i64,
                }
            };
            let item = if item > 0 { item.min(remaining as i64) } else { item };
            self.rq.push_back(item);
            self.s_log.push(item);
        }
    }

    fn draw_write(&mut self) {
        if let Some(rng) = self.rng.as_mut() {
            let item = match rng.below(100) {
                0..=11 => -1,
                12 => 0,
                13 => -2,
                14..=25 => 1,
                26..=40 => 1 + rng.below(30) as i64,
                41..=55 => 1 + rng.below(9000) as i64,
                56..=70 => 8192,
                _ => 1 + rng.below(300_000) as i64,
            };
            self.wq.push_back(item);
            self.s_log.push(item);
        }
    }

    fn draw_flush(&mut self) {
        if let Some(rng) = self.rng.as_mut() {
            let item = match rng.below(20) {
                0..=15 => 1,
                16..=18 => -1,
                _ => -2,
            };
            self.fq.push_back(item);
            self.fs_log.push(item);
        }
    }
}

pub struct MockIo(pub Rc<RefCell<IoState>>);

impl AsyncRead for MockIo {
    fn poll_read(self: Pin<&mut Self>, _cx: &mut Context<'_>, buf: &mut ReadBuf<'_>) -> Poll<std::io::Result<()>> {
        let mut guard = self.0.borrow_mut();
        let st = &mut *guard;
        st.tick();
        if buf.remaining() == 0 {
            st.note("rempty");
            return Poll::Ready(Ok(()));
        }
        if st.rq.is_empty() {
            st.draw_read();
        }
        match st.rq.front().copied() {
            None => {
                st.x += 1;
                st.note("pend");
                Poll::Pending
            }
            Some(n) if n > 0 => {
                let k = (n as usize).min(buf.remaining()).min(st.input.len() - st.rpos);
                if k == 0 {
                    // the script promises bytes the stream does not have
                    st.rq.pop_front();
                    st.x += 1;
                    st.note("pend");
                    return Poll::Pending;
                }
                buf.put_slice(&st.input[st.rpos..st.rpos + k]);
                st.rpos += k;
                st.rd += k;
                if n as usize == k {
                    st.rq.pop_front();
                } else {
                    *st.rq.front_mut().unwrap() = n - k as i64;
                }
                Poll::Ready(Ok(()))
            }
            Some(0) => {
                st.note("eof");
                Poll::Ready(Ok(()))
            }
            Some(-1) => {
                st.rq.pop_front();
                st.note("pend");
                Poll::Pending
            }
            Some(_) => {
                st.rq.pop_front();
                st.note("err");
                Poll::Ready(Err(IoError::new(ErrorKind::ConnectionReset, "scripted read error")))
            }
        }
    }
}

impl AsyncWrite for MockIo {
    fn poll_write(self: Pin<&mut Self>, _cx: &mut Context<'_>, data: &[u8]) -> Poll<std::io::Result<usize>> {
        let mut guard = self.0.borrow_mut();
        let st = &mut *guard;
        st.tick();
        if data.is_empty() {
            st.note("wempty");
            return Poll::Ready(Ok(0));
        }
        if st.wq.is_empty() {
            st.draw_write();
        }
        match st.wq.pop_front() {
            None => {
                st.x += 1;
                st.note("wpend");
                Poll::Pending
            }
            Some(n) if n > 0 => {
                let k = (n as usize).min(data.len());
                if st.wpos + k > st.expect_out.len() || st.expect_out[st.wpos..st.wpos + k] != data[..k] {
                    st.wm = false;
                }
                st.wpos += k;
                st.wn += k;
                Poll::Ready(Ok(k))
            }
            Some(0) => {
                st.note("w0");
                Poll::Ready(Ok(0))
            }
            Some(-1) => {
                st.note("wpend");
                Poll::Pending
            }
            Some(_) => {
                st.note("werr");
                Poll::Ready(Err(IoError::new(ErrorKind::ConnectionReset, "scripted write error")))
            }
        }
    }

    fn poll_flush(self: Pin<&mut Self>, _cx: &mut Context<'_>) -> Poll<std::io::Result<()>> {
        let mut guard = self.0.borrow_mut();
        let st = &mut *guard;
        st.tick();
        if st.fq.is_empty() {
            st.draw_flush();
        }
        match st.fq.pop_front() {
            None => {
                st.x += 1;
                st.note("fpend");
                Poll::Pending
            }
            Some(1) => {
                st.note("fok");
                Poll::Ready(Ok(()))
            }
            Some(-1) => {
                st.note("fpend");
                Poll::Pending
            }
            Some(_) => {
                st.note("ferr");
                Poll::Ready(Err(IoError::new(ErrorKind::ConnectionReset, "scripted flush error")))
            }
        }
    }

    fn poll_shutdown(self: Pin<&mut Self>, _cx: &mut Context<'_>) -> Poll<std::io::Result<()>> {
        Poll::Ready(Ok(()))
    }
}

// ------------------------------------------------------------------------------------------------
// scripted inner transport for Buffered<T>.  Items: 1 Ok / next message, -1 Pending, -2 error.

pub struct InnerState {
    incoming: Vec<Message>,
    outgoing: Vec<Message>,
    offered: usize,
    handed: usize,
    q: VecDeque<i64>,
    rng: Option<Rng>,
    pub ic: Vec<Value>,
    pub x: usize,
    calls: usize,
    s_log: Vec<i64>,
}

impl InnerState {
    pub fn new(incoming: Vec<Message>, outgoing: Vec<Message>, rng: Option<Rng>) -> Self {
        Self { incoming, outgoing, offered: 0, handed: 0, q: VecDeque::new(), rng, ic: Vec::new(), x: 0, calls: 0, s_log: Vec::new() }
    }

    pub fn begin_call(&mut self, s: &[i64]) {
        self.q = s.iter().copied().collect();
        self.ic.clear();
        self.x = 0;
        self.calls = 0;
        self.s_log = s.to_vec();
    }

    pub fn end_call(&mut self) -> Vec<i64> {
        self.x += self.q.len();
        self.q.clear();
        std::mem::take(&mut self.s_log)
    }

    /// next script item for an inner call of kind `c`
    fn item(&mut self, c: &str) -> Option<i64> {
        self.calls += 1;
        if self.calls > MAX_IO_CALLS_PER_API_CALL {
            panic!("runaway: more than {MAX_IO_CALLS_PER_API_CALL} inner calls inside one call of Buffered");
        }
        if self.q.is_empty() {
            if let Some(rng) = self.rng.as_mut() {
                let r = rng.below(100);
                let item = match c {
                    "sta" => if r < 97 { 1 } else { -2 },
                    "rcv" => if r < 60 && self.offered < self.incoming.len() { 1 } else if r < 95 { -1 } else { -2 },
                    _ => if r < 75 { 1 } else if r < 95 { -1 } else { -2 },
                };
                self.q.push_back(item);
                self.s_log.push(item);
            }
        }
        self.q.pop_front()
    }

    fn log(&mut self, c: &str, r: &str, m: usize) {
        if self.ic.len() < 64 {
            self.ic.push(json!({"c": c, "r": r, "m": m}));
        }
    }

    fn poll_unit(&mut self, c: &str) -> Poll<Result<(), IoError>> {
        match self.item(c) {
            None => {
                self.x += 1;
                self.log(c, "pend", 0);
                Poll::Pending
            }
            Some(1) => {
                self.log(c, "ok", 0);
                Poll::Ready(Ok(()))
            }
            Some(-1) => {
                self.log(c, "pend", 0);
                Poll::Pending
            }
            Some(_) => {
                self.log(c, "err", 0);
                Poll::Ready(Err(IoError::new(ErrorKind::ConnectionReset, "scripted inner error")))
            }
        }
    }
}

pub struct MockInner(pub Rc<RefCell<InnerState>>);

impl AsyncTransport for MockInner {
    type Error = IoError;

    fn receive_poll(self: Pin<&mut Self>, _cx: &mut Context) -> Poll<Result<Message, IoError>> {
        let mut st = self.0.borrow_mut();
        match st.item("rcv") {
            Some(n) if n > 0 && st.offered < st.incoming.len() => {
                st.offered += 1;
                let k = st.offered;
                st.log("rcv", "msg", k);
                Poll::Ready(Ok(st.incoming[k - 1].clone()))
            }
            None | Some(1..) => {
                st.x += 1;
                st.log("rcv", "pend", 0);
                Poll::Pending
            }
            Some(-1) => {
                st.log("rcv", "pend", 0);
                Poll::Pending
            }
            Some(_) => {
                st.log("rcv", "err", 0);
                Poll::Ready(Err(IoError::new(ErrorKind::ConnectionReset, "scripted inner error")))
            }
        }
    }

    fn send_poll_ready(self: Pin<&mut Self>, _cx: &mut Context) -> Poll<Result<(), IoError>> {
        self.0.borrow_mut().poll_unit("rdy")
    }

    fn send_start(self: Pin<&mut Self>, msg: Message) -> Result<(), IoError> {
        let mut st = self.0.borrow_mut();
        // which message is it?  (the expected next one first: messages may be equal)
        let m = if st.handed < st.outgoing.len() && st.outgoing[st.handed] == msg {
            st.handed += 1;
            st.handed
        } else {
            st.outgoing.iter().position(|o| *o == msg).map(|i| i + 1).unwrap_or(0)
        };
        match st.item("sta") {
            None => {
                st.x += 1;
                st.log("sta", "ok", m);
                Ok(())
            }
            Some(n) if n >= 0 => {
                st.log("sta", "ok", m);
                Ok(())
            }
            Some(_) => {
                st.log("sta", "err", m);
                Err(IoError::new(ErrorKind::ConnectionReset, "scripted inner error"))
            }
        }
    }

    fn send_poll_flush(self: Pin<&mut Self>, _cx: &mut Context) -> Poll<Result<(), IoError>> {
        self.0.borrow_mut().poll_unit("fls")
    }
}
