//! C14 driver: executes behaviours of /verif/spec/Framing.tla on the real `Packetizer`, on a real
//! `TokioTransport` over a scripted in-memory `AsyncRead + AsyncWrite`, and on a real `Buffered<T>`
//! over a scripted inner transport.
//!
//! A *case* is one JSON line `{"ev": [event, ...]}`; the events are those of FramingObs.tla (section
//! 2).  Input fields (`n`, `s`, `fs`, `m`) say what to do and what the scripted I/O object answers;
//! all other fields are the specification's prediction.  The driver re-creates every event from
//! what the real code did and compares it with the prediction (JSON equality).  It decides
//! nothing about the property: real traces of cases that differ (or of all cases, `--all-traces`)
//! are written as ndjson and judged by TLC (Trace_Framing.tla, the observer of FramingObs.tla).
//!
//! `framing replay --cases F --traces OUT [--all-traces]`
//! `framing random --seed S --count N --max-frame BYTES --traces OUT`   (open-loop seeded cases;
//!     every trace is written; the recorded `s`/`fs` make each of them replayable with `replay`)
//!
//! The last stdout line is a JSON summary.

mod mock;
mod msgs;

use aldrin_core::message::{Message, Packetizer};
use aldrin_core::tokio::TokioTransport;
use aldrin_core::transport::{AsyncTransport, Buffered};
use mock::{err_kind, CountWaker, InnerState, IoState, MockInner, MockIo};
use msgs::{Frame, FrameCache, Rng};
use serde_json::{json, Map, Value};
use std::cell::RefCell;
use std::collections::{BTreeSet, VecDeque};
use std::io::{BufRead, BufReader, BufWriter, Write};
use std::panic::{catch_unwind, AssertUnwindSafe};
use std::pin::Pin;
use std::rc::Rc;
use std::sync::atomic::{AtomicU64, Ordering};
use std::sync::{Arc, Mutex};
use std::task::{Context, Poll, Waker};

static HEARTBEAT: AtomicU64 = AtomicU64::new(0);

#[derive(Default)]
struct Stats {
    cases: u64,
    events: u64,
    mismatching_cases: u64,
    nontrivial: u64,
    bytes_fed: u64,
    bytes_written: u64,
    frame_sizes: BTreeSet<u64>,
    first_spare: BTreeSet<u64>,
    min_spare: Option<u64>,
    header_cuts: BTreeSet<u64>,
    single_byte_feeds: u64,
    panics: u64,
    by_machine: std::collections::BTreeMap<String, u64>,
}

fn ints(v: Option<&Value>) -> Vec<i64> {
    v.and_then(|v| v.as_array()).map(|a| a.iter().filter_map(|x| x.as_i64()).collect()).unwrap_or_default()
}

fn obj(pairs: Vec<(&str, Value)>) -> Value {
    let mut m = Map::new();
    for (k, v) in pairs {
        m.insert(k.to_string(), v);
    }
    Value::Object(m)
}

/// Which frame of `frames` equals `bytes` (1-based; the expected next one is tried first; -1: none).
fn identify_bytes(frames: &[Frame], bytes: &[u8], next: usize) -> i64 {
    if next < frames.len() && frames[next].bytes[..] == *bytes {
        return next as i64 + 1;
    }
    for (i, f) in frames.iter().enumerate() {
        if f.bytes[..] == *bytes {
            return i as i64 + 1;
        }
    }
    -1
}

fn identify_msg(frames: &[Frame], msg: &Message, next: usize) -> i64 {
    if next < frames.len() && frames[next].msg == *msg {
        return next as i64 + 1;
    }
    for (i, f) in frames.iter().enumerate() {
        if f.msg == *msg {
            return i as i64 + 1;
        }
    }
    -1
}

// ------------------------------------------------------------------------------------------------
// One behaviour on the real code.  `Exec` holds the real objects; `step` executes one event given
// its input fields and returns the event as the real code produced it.

struct PkWorld {
    pk: Packetizer,
    fed: usize,
    early: VecDeque<bytes::BytesMut>,
    delivered: usize,
    fresh: bool,
}

struct TokWorld {
    tr: TokioTransport<MockIo>,
    io: Rc<RefCell<IoState>>,
    delivered: usize,
    ready: bool,
}

struct BufWorld {
    tr: Buffered<MockInner>,
    st: Rc<RefCell<InnerState>>,
    delivered: usize,
    ready: bool,
}

enum World {
    Pk(PkWorld),
    Tok(TokWorld),
    Buf(BufWorld),
}

struct Exec {
    world: World,
    inf: Vec<Frame>,
    outf: Vec<Frame>,
    stream: Arc<Vec<u8>>,
    waker: Arc<CountWaker>,
    dead: bool,
}

enum StepOutcome {
    Event(Value),
    Infeasible(&'static str),
}

impl Exec {
    fn new(reset: &Value, cache: &mut FrameCache, stats: &mut Stats, rng: Option<Rng>) -> Result<Self, String> {
        let machine = reset.get("m").and_then(|m| m.as_str()).unwrap_or("");
        let inl = ints(reset.get("in"));
        let outl = ints(reset.get("out"));
        let mut inf = Vec::new();
        for (i, l) in inl.iter().enumerate() {
            inf.push(cache.get(*l as usize, i as u32 + 1)?);
            stats.frame_sizes.insert(*l as u64);
        }
        let mut outf = Vec::new();
        for (i, l) in outl.iter().enumerate() {
            outf.push(cache.get(*l as usize, i as u32 + 101)?);
            stats.frame_sizes.insert(*l as u64);
        }
        let mut stream = Vec::new();
        for f in &inf {
            stream.extend_from_slice(&f.bytes);
        }
        let stream = Arc::new(stream);
        let world = match machine {
            "pk" => World::Pk(PkWorld { pk: Packetizer::new(), fed: 0, early: VecDeque::new(), delivered: 0, fresh: true }),
            "tokio" => {
                let mut expect_out = Vec::new();
                for f in &outf {
                    expect_out.extend_from_slice(&f.bytes);
                }
                let io = Rc::new(RefCell::new(IoState::new(stream.clone(), expect_out, rng)));
                World::Tok(TokWorld { tr: TokioTransport::new(MockIo(io.clone())), io, delivered: 0, ready: false })
            }
            "buf" => {
                let st = Rc::new(RefCell::new(InnerState::new(
                    inf.iter().map(|f| f.msg.clone()).collect(),
                    outf.iter().map(|f| f.msg.clone()).collect(),
                    rng,
                )));
                World::Buf(BufWorld { tr: Buffered::new(MockInner(st.clone())), st, delivered: 0, ready: false })
            }
            other => return Err(format!("unknown machine {other:?}")),
        };
        *stats.by_machine.entry(machine.to_string()).or_default() += 1;
        Ok(Self { world, inf, outf, stream, waker: Arc::new(CountWaker::default()), dead: false })
    }

    /// Executes one event.  `e` supplies the input fields.
    fn step(&mut self, e: &Value, stats: &mut Stats) -> StepOutcome {
        if self.dead {
            return StepOutcome::Infeasible("the transport returned an error before");
        }
        let t = e.get("t").and_then(|t| t.as_str()).unwrap_or("");
        let waker = Waker::from(self.waker.clone());
        let mut cx = Context::from_waker(&waker);
        let woke0 = self.waker.count();
        match (&mut self.world, t) {
            (World::Pk(w), "ext") | (World::Pk(w), "spw") => {
                let n = e.get("n").and_then(|n| n.as_u64()).unwrap_or(0) as usize;
                if w.fed + n > self.stream.len() {
                    return StepOutcome::Infeasible("chunk beyond the end of the stream");
                }
                let data = &self.stream[w.fed..w.fed + n];
                // where does this chunk end, relative to the frame it ends in?
                let mut off = w.fed + n;
                for f in &self.inf {
                    if off <= f.bytes.len() {
                        break;
                    }
                    off -= f.bytes.len();
                }
                if off < 8 {
                    stats.header_cuts.insert(off as u64);
                }
                if n == 1 {
                    stats.single_byte_feeds += 1;
                }
                if t == "ext" {
                    w.pk.extend_from_slice(data);
                } else {
                    // the spare_capacity_mut / bytes_written interface, used like TokioTransport
                    // does: a slice is only requested after next_message returned None.  If the
                    // slice is shorter than the chunk, the rest follows the same way; frames
                    // that come out in between are handed out by the following "nxt" events.
                    let mut rest = data;
                    loop {
                        let spare = w.pk.spare_capacity_mut();
                        let s = spare.len();
                        if w.fresh {
                            stats.first_spare.insert(s as u64);
                            w.fresh = false;
                        }
                        stats.min_spare = Some(stats.min_spare.map_or(s as u64, |m| m.min(s as u64)));
                        if s == 0 {
                            return StepOutcome::Event(obj(vec![("t", json!("empty"))]));
                        }
                        let k = s.min(rest.len());
                        for (d, b) in spare.iter_mut().zip(&rest[..k]) {
                            d.write(*b);
                        }
                        // SAFETY: the first k bytes of the slice were initialised above.
                        unsafe { w.pk.bytes_written(k) };
                        rest = &rest[k..];
                        if rest.is_empty() {
                            break;
                        }
                        while let Some(m) = w.pk.next_message() {
                            w.early.push_back(m);
                        }
                    }
                }
                w.fresh = false;
                w.fed += n;
                stats.bytes_fed += n as u64;
                StepOutcome::Event(obj(vec![("t", json!(t)), ("n", json!(n))]))
            }
            (World::Pk(w), "nxt") => {
                let m = match w.early.pop_front() {
                    Some(m) => Some(m),
                    None => w.pk.next_message(),
                };
                let f = match m {
                    None => 0,
                    Some(b) => {
                        let f = identify_bytes(&self.inf, &b, w.delivered);
                        if f > 0 {
                            w.delivered = w.delivered.max(f as usize);
                        }
                        f
                    }
                };
                StepOutcome::Event(obj(vec![("t", json!("nxt")), ("f", json!(f))]))
            }
            (World::Tok(w), "recv") => {
                let s = ints(e.get("s"));
                w.io.borrow_mut().begin_call(&s, &[], &[]);
                let r = Pin::new(&mut w.tr).receive_poll(&mut cx);
                let mut io = w.io.borrow_mut();
                if self.waker.count() != woke0 {
                    io.note("woke");
                }
                let (r, f, ek) = match r {
                    Poll::Pending => ("pend", 0, String::new()),
                    Poll::Ready(Ok(m)) => {
                        let f = identify_msg(&self.inf, &m, w.delivered);
                        if f > 0 {
                            w.delivered = w.delivered.max(f as usize);
                        }
                        ("msg", f, String::new())
                    }
                    Poll::Ready(Err(e)) => {
                        self.dead = true;
                        ("err", 0, err_kind(&e))
                    }
                };
                stats.bytes_fed += io.rd as u64;
                let (s_log, _) = io.end_call();
                StepOutcome::Event(obj(vec![
                    ("t", json!("recv")),
                    ("s", json!(s_log)),
                    ("rd", json!(io.rd)),
                    ("ev", json!(io.ev)),
                    ("x", json!(io.x)),
                    ("r", json!(r)),
                    ("f", json!(f)),
                    ("e", json!(ek)),
                ]))
            }
            (World::Tok(w), "rdy") | (World::Tok(w), "fls") => {
                let s = ints(e.get("s"));
                let fs = ints(e.get("fs"));
                w.io.borrow_mut().begin_call(&[], &s, &fs);
                let r = if t == "rdy" {
                    Pin::new(&mut w.tr).send_poll_ready(&mut cx)
                } else {
                    Pin::new(&mut w.tr).send_poll_flush(&mut cx)
                };
                let mut io = w.io.borrow_mut();
                if self.waker.count() != woke0 {
                    io.note("woke");
                }
                let (r, ek) = match r {
                    Poll::Pending => ("pend", String::new()),
                    Poll::Ready(Ok(())) => {
                        if t == "rdy" {
                            w.ready = true;
                        }
                        ("ok", String::new())
                    }
                    Poll::Ready(Err(e)) => {
                        self.dead = true;
                        ("err", err_kind(&e))
                    }
                };
                stats.bytes_written += io.wn as u64;
                let (s_log, fs_log) = io.end_call();
                StepOutcome::Event(obj(vec![
                    ("t", json!(t)),
                    ("s", json!(s_log)),
                    ("fs", json!(fs_log)),
                    ("wn", json!(io.wn)),
                    ("wm", json!(if io.wm { 1 } else { 0 })),
                    ("ev", json!(io.ev)),
                    ("x", json!(io.x)),
                    ("r", json!(r)),
                    ("e", json!(ek)),
                ]))
            }
            (World::Tok(w), "sta") => {
                let m = e.get("m").and_then(|m| m.as_u64()).unwrap_or(0) as usize;
                if !w.ready {
                    return StepOutcome::Infeasible("send_start without a preceding successful send_poll_ready");
                }
                if m == 0 || m > self.outf.len() {
                    return StepOutcome::Infeasible("no such message");
                }
                w.ready = false;
                let r = Pin::new(&mut w.tr).send_start(self.outf[m - 1].msg.clone());
                if r.is_err() {
                    self.dead = true;
                }
                StepOutcome::Event(obj(vec![("t", json!("sta")), ("m", json!(m)), ("r", json!(if r.is_ok() { "ok" } else { "err" }))]))
            }
            (World::Buf(w), "brcv") | (World::Buf(w), "brdy") | (World::Buf(w), "bfls") => {
                let s = ints(e.get("s"));
                w.st.borrow_mut().begin_call(&s);
                let (r, f, ek) = if t == "brcv" {
                    match Pin::new(&mut w.tr).receive_poll(&mut cx) {
                        Poll::Pending => ("pend", 0, String::new()),
                        Poll::Ready(Ok(m)) => {
                            let f = identify_msg(&self.inf, &m, w.delivered);
                            if f > 0 {
                                w.delivered = w.delivered.max(f as usize);
                            }
                            ("msg", f, String::new())
                        }
                        Poll::Ready(Err(e)) => {
                            self.dead = true;
                            ("err", 0, err_kind_io(&e))
                        }
                    }
                } else {
                    let r = if t == "brdy" {
                        Pin::new(&mut w.tr).send_poll_ready(&mut cx)
                    } else {
                        Pin::new(&mut w.tr).send_poll_flush(&mut cx)
                    };
                    match r {
                        Poll::Pending => ("pend", 0, String::new()),
                        Poll::Ready(Ok(())) => {
                            if t == "brdy" {
                                w.ready = true;
                            }
                            ("ok", 0, String::new())
                        }
                        Poll::Ready(Err(e)) => {
                            self.dead = true;
                            ("err", 0, err_kind_io(&e))
                        }
                    }
                };
                let mut st = w.st.borrow_mut();
                let s_log = st.end_call();
                StepOutcome::Event(obj(vec![
                    ("t", json!(t)),
                    ("s", json!(s_log)),
                    ("ic", Value::Array(st.ic.clone())),
                    ("x", json!(st.x)),
                    ("r", json!(r)),
                    ("f", json!(f)),
                    ("e", json!(ek)),
                ]))
            }
            (World::Buf(w), "bsta") => {
                let m = e.get("m").and_then(|m| m.as_u64()).unwrap_or(0) as usize;
                if !w.ready {
                    return StepOutcome::Infeasible("send_start without a preceding successful send_poll_ready");
                }
                if m == 0 || m > self.outf.len() {
                    return StepOutcome::Infeasible("no such message");
                }
                w.ready = false;
                let r = Pin::new(&mut w.tr).send_start(self.outf[m - 1].msg.clone());
                if r.is_err() {
                    self.dead = true;
                }
                StepOutcome::Event(obj(vec![("t", json!("bsta")), ("m", json!(m)), ("r", json!(if r.is_ok() { "ok" } else { "err" }))]))
            }
            _ => StepOutcome::Infeasible("event does not belong to this machine"),
        }
    }
}

fn err_kind_io(e: &std::io::Error) -> String {
    mock::io_kind(e)
}

// ------------------------------------------------------------------------------------------------
static PANIC_MSG: Mutex<String> = Mutex::new(String::new());

/// `rd` (bytes the reader handed over during one call) depends on how much spare capacity the
/// real BytesMut happens to have; the model only knows a lower bound.  It is what the observer
/// needs (real value in the real trace) but it is not compared with the prediction.
fn comparable(e: &Value) -> Value {
    let mut e = e.clone();
    if let Some(o) = e.as_object_mut() {
        o.remove("rd");
    }
    e
}

struct Replayed {
    real: Vec<Value>,
    first_mismatch: Option<usize>,
    stopped: Option<&'static str>,
}

/// Replays the events of a case; `current` mirrors the real events for the watchdog.
fn replay_case(ev: &[Value], cache: &mut FrameCache, stats: &mut Stats, current: &Mutex<Vec<Value>>) -> Result<Replayed, String> {
    let reset = ev.first().ok_or("empty case")?;
    if reset.get("t").and_then(|t| t.as_str()) != Some("reset") {
        return Err("case does not start with a reset event".into());
    }
    let mut ex = Exec::new(reset, cache, stats, None)?;
    let mut real = vec![reset.clone()];
    *current.lock().unwrap() = real.clone();
    let mut first_mismatch = None;
    let mut stopped = None;
    let mut inputs = 0;
    for (i, e) in ev.iter().enumerate().skip(1) {
        HEARTBEAT.fetch_add(1, Ordering::Relaxed);
        inputs += match e.get("t").and_then(|t| t.as_str()) {
            Some("ext") | Some("spw") => 1,
            _ => ints(e.get("s")).len() + ints(e.get("fs")).len(),
        };
        let out = catch_unwind(AssertUnwindSafe(|| ex.step(e, stats)));
        let got = match out {
            Ok(StepOutcome::Event(v)) => v,
            Ok(StepOutcome::Infeasible(why)) => {
                stopped = Some(why);
                if first_mismatch.is_none() {
                    first_mismatch = Some(i);
                }
                break;
            }
            Err(_) => {
                stats.panics += 1;
                let msg = PANIC_MSG.lock().unwrap().clone();
                real.push(obj(vec![("t", json!("panic")), ("msg", json!(msg))]));
                if first_mismatch.is_none() {
                    first_mismatch = Some(i);
                }
                stopped = Some("panic");
                break;
            }
        };
        stats.events += 1;
        let same = comparable(&got) == comparable(e);
        real.push(got);
        current.lock().unwrap().push(real.last().unwrap().clone());
        if !same && first_mismatch.is_none() {
            first_mismatch = Some(i);
        }
        if real.last().and_then(|g| g.get("t")).and_then(|t| t.as_str()) == Some("empty") {
            stopped = Some("empty spare slice");
            break;
        }
    }
    if inputs >= 2 {
        stats.nontrivial += 1;
    }
    Ok(Replayed { real, first_mismatch, stopped })
}

struct TraceOut {
    w: BufWriter<std::fs::File>,
    idx: BufWriter<std::fs::File>,
    records: u64,
}

impl TraceOut {
    fn new(path: &str) -> std::io::Result<Self> {
        Ok(Self {
            w: BufWriter::new(std::fs::File::create(path)?),
            idx: BufWriter::new(std::fs::File::create(format!("{path}.idx"))?),
            records: 0,
        })
    }

    fn put(&mut self, case: u64, real: &[Value], first_mismatch: Option<usize>, expected: Option<&Value>, stopped: Option<&str>) {
        let first = self.records + 1;
        for r in real {
            // the observer only needs the property-level fields; "msg" of a panic may contain anything
            let mut r = r.clone();
            if let Some(o) = r.as_object_mut() {
                o.remove("msg");
            }
            writeln!(self.w, "{r}").unwrap();
            self.records += 1;
        }
        let line = json!({"case": case, "first_record": first, "records": real.len(), "first_mismatch": first_mismatch,
                          "expected": expected, "got": first_mismatch.and_then(|i| real.get(i)), "stopped": stopped});
        writeln!(self.idx, "{line}").unwrap();
    }

    fn finish(&mut self) {
        self.w.flush().unwrap();
        self.idx.flush().unwrap();
    }
}

fn summary(stats: &Stats, extra: Value) -> Value {
    let mut v = json!({
        "cases": stats.cases, "events": stats.events, "mismatching_cases": stats.mismatching_cases,
        "nontrivial_cases": stats.nontrivial, "bytes_fed": stats.bytes_fed, "bytes_written": stats.bytes_written,
        "frame_sizes": stats.frame_sizes, "first_spare": stats.first_spare, "min_spare": stats.min_spare,
        "header_cut_offsets": stats.header_cuts, "single_byte_feeds": stats.single_byte_feeds,
        "panics": stats.panics, "by_machine": stats.by_machine,
    });
    if let (Some(a), Some(b)) = (v.as_object_mut(), extra.as_object()) {
        for (k, x) in b {
            a.insert(k.clone(), x.clone());
        }
    }
    v
}

fn arg(args: &[String], name: &str) -> Option<String> {
    args.iter().position(|a| a == name).and_then(|i| args.get(i + 1)).cloned()
}

fn run_replay(args: &[String], current: Arc<Mutex<Vec<Value>>>, case_no: Arc<AtomicU64>) -> Result<Value, String> {
    let cases = arg(args, "--cases").ok_or("--cases missing")?;
    let traces = arg(args, "--traces").ok_or("--traces missing")?;
    let all = args.iter().any(|a| a == "--all-traces");
    let mut out = TraceOut::new(&traces).map_err(|e| e.to_string())?;
    let mut cache = FrameCache::default();
    let mut stats = Stats::default();
    let f = std::fs::File::open(&cases).map_err(|e| format!("{cases}: {e}"))?;
    for (n, line) in BufReader::new(f).lines().enumerate() {
        let line = line.map_err(|e| e.to_string())?;
        if line.trim().is_empty() {
            continue;
        }
        let v: Value = serde_json::from_str(&line).map_err(|e| format!("case {n}: {e}"))?;
        let ev = v.get("ev").and_then(|e| e.as_array()).ok_or("case without ev")?;
        case_no.store(n as u64, Ordering::Relaxed);
        let r = replay_case(ev, &mut cache, &mut stats, &current)?;
        stats.cases += 1;
        if r.first_mismatch.is_some() {
            stats.mismatching_cases += 1;
        }
        if r.first_mismatch.is_some() || all {
            out.put(n as u64, &r.real, r.first_mismatch, r.first_mismatch.and_then(|i| ev.get(i)), r.stopped);
        }
    }
    out.finish();
    Ok(summary(&stats, json!({"mode": "replay", "trace_records": out.records})))
}

// ------------------------------------------------------------------------------------------------
// open-loop random behaviours (real messages of random sizes, random chunkings / I/O results)

const SPECIAL: [usize; 16] = [5, 6, 7, 10, 22, 26, 27, 100, 8191, 8192, 8193, 65535, 65536, 65537, 131075, 204800];

fn random_size(rng: &mut Rng, max_frame: usize) -> usize {
    let l = match rng.below(10) {
        0..=3 => SPECIAL[rng.below(SPECIAL.len() as u64) as usize],
        4..=6 => 27 + rng.below(300) as usize,
        7 => 5 + rng.below(6) as usize,
        8 => 8000 + rng.below(400) as usize,
        _ => 27 + rng.below(max_frame.max(28) as u64 - 27) as usize,
    };
    let l = l.min(max_frame.max(27));
    if (11..22).contains(&l) { 22 } else { l }
}

fn random_chunk(rng: &mut Rng, remaining: usize) -> usize {
    let n = match rng.below(10) {
        0..=2 => 1,
        3..=4 => 1 + rng.below(5) as usize,
        5 => 1 + rng.below(40) as usize,
        6 => 1 + rng.below(9000) as usize,
        7 => 1 + rng.below(70000) as usize,
        8 => remaining,
        _ => 1 + rng.below(remaining as u64) as usize,
    };
    n.clamp(1, remaining)
}

fn run_random(args: &[String], current: Arc<Mutex<Vec<Value>>>, case_no: Arc<AtomicU64>) -> Result<Value, String> {
    let seed: u64 = arg(args, "--seed").and_then(|s| s.parse().ok()).unwrap_or(1);
    let count: u64 = arg(args, "--count").and_then(|s| s.parse().ok()).unwrap_or(100);
    let max_frame: usize = arg(args, "--max-frame").and_then(|s| s.parse().ok()).unwrap_or(204800);
    let traces = arg(args, "--traces").ok_or("--traces missing")?;
    let mut out = TraceOut::new(&traces).map_err(|e| e.to_string())?;
    let mut cache = FrameCache::default();
    let mut stats = Stats::default();
    let mut rng = Rng::new(seed ^ 0xC14);
    for n in 0..count {
        case_no.store(n, Ordering::Relaxed);
        let machine = match n % 5 {
            0 | 1 => "pk",
            2 | 3 => "tokio",
            _ => "buf",
        };
        let nin = rng.below(5) as usize + if machine == "pk" { 1 } else { 0 };
        let nout = if machine == "pk" { 0 } else { rng.below(5) as usize };
        // keep a behaviour below ~600 KiB so that a run stays fast
        let cap = if n % 7 == 0 { max_frame } else { max_frame.min(70000) };
        let inl: Vec<usize> = (0..nin).map(|_| random_size(&mut rng, cap)).collect();
        let outl: Vec<usize> = (0..nout).map(|_| random_size(&mut rng, cap)).collect();
        let reset = json!({"t": "reset", "m": machine, "in": inl, "out": outl});
        let mut ex = Exec::new(&reset, &mut cache, &mut stats, Some(Rng::new(rng.next())))?;
        let mut real = vec![reset.clone()];
        *current.lock().unwrap() = real.clone();
        let total: usize = inl.iter().sum();
        let mut stopped = None;
        let mut inputs = 0;
        // the sequence of operations is chosen on the fly from what the real code returned
        let mut fed = 0usize;
        let mut drained = false;
        let mut started = 0usize;
        let mut ready = false;
        let mut dirty = false;
        let mut ops = 0;
        loop {
            HEARTBEAT.fetch_add(1, Ordering::Relaxed);
            ops += 1;
            let e: Value = match machine {
                "pk" => {
                    if fed == total && drained {
                        break;
                    }
                    let want_feed = fed < total && (drained || rng.below(3) > 0);
                    if want_feed {
                        let n = random_chunk(&mut rng, total - fed);
                        fed += n;
                        inputs += 1;
                        if drained && rng.below(2) == 0 {
                            drained = false;
                            json!({"t": "spw", "n": n})
                        } else {
                            drained = false;
                            json!({"t": "ext", "n": n})
                        }
                    } else {
                        json!({"t": "nxt"})
                    }
                }
                _ => {
                    if ops > 60 || ex.dead {
                        break;
                    }
                    let (r, y, s, f) = if machine == "tokio" { ("recv", "rdy", "sta", "fls") } else { ("brcv", "brdy", "bsta", "bfls") };
                    let mut choices = vec![r];
                    if ready && started < outl.len() {
                        choices.push(s);
                        choices.push(s);
                    } else if started < outl.len() {
                        choices.push(y);
                        choices.push(y);
                    }
                    if dirty {
                        choices.push(f);
                    }
                    let c = choices[rng.below(choices.len() as u64) as usize];
                    if c == s {
                        json!({"t": c, "m": started + 1})
                    } else {
                        json!({"t": c})
                    }
                }
            };
            let outc = catch_unwind(AssertUnwindSafe(|| ex.step(&e, &mut stats)));
            match outc {
                Ok(StepOutcome::Event(v)) => {
                    stats.events += 1;
                    let t = v.get("t").and_then(|t| t.as_str()).unwrap_or("").to_string();
                    let r = v.get("r").and_then(|t| t.as_str()).unwrap_or("").to_string();
                    inputs += ints(v.get("s")).len() + ints(v.get("fs")).len();
                    match t.as_str() {
                        "nxt" => drained = v.get("f").and_then(|f| f.as_i64()) == Some(0),
                        "rdy" | "brdy" => ready = r == "ok",
                        "sta" | "bsta" => {
                            started += 1;
                            ready = false;
                            dirty = true;
                        }
                        "fls" | "bfls" => {
                            if r == "ok" {
                                dirty = false;
                            }
                        }
                        _ => {}
                    }
                    current.lock().unwrap().push(v.clone());
                    let empty = t == "empty";
                    real.push(v);
                    if empty {
                        stopped = Some("empty spare slice");
                        break;
                    }
                }
                Ok(StepOutcome::Infeasible(why)) => {
                    stopped = Some(why);
                    break;
                }
                Err(_) => {
                    stats.panics += 1;
                    let msg = PANIC_MSG.lock().unwrap().clone();
                    real.push(obj(vec![("t", json!("panic")), ("msg", json!(msg))]));
                    stopped = Some("panic");
                    break;
                }
            }
        }
        if inputs >= 2 {
            stats.nontrivial += 1;
        }
        stats.cases += 1;
        out.put(n, &real, None, None, stopped);
    }
    out.finish();
    Ok(summary(&stats, json!({"mode": "random", "seed": seed, "trace_records": out.records})))
}

fn main() {
    let args: Vec<String> = std::env::args().collect();
    std::panic::set_hook(Box::new(|info| {
        *PANIC_MSG.lock().unwrap() = info.to_string().chars().take(300).collect();
    }));
    let current = Arc::new(Mutex::new(Vec::new()));
    let case_no = Arc::new(AtomicU64::new(0));
    let (c2, n2, a2) = (current.clone(), case_no.clone(), args.clone());
    let worker = std::thread::Builder::new().stack_size(64 << 20).spawn(move || match a2.get(1).map(|s| s.as_str()) {
        Some("replay") => run_replay(&a2, c2, n2),
        Some("random") => run_random(&a2, c2, n2),
        _ => Err("usage: framing replay|random ...".to_string()),
    });
    let worker = worker.expect("spawn");
    // watchdog: a hang of the code under test is data, not a tool error
    let mut last = HEARTBEAT.load(Ordering::Relaxed);
    let mut idle = 0;
    loop {
        std::thread::sleep(std::time::Duration::from_millis(50));
        if worker.is_finished() {
            break;
        }
        let now = HEARTBEAT.load(Ordering::Relaxed);
        if now == last {
            idle += 1;
        } else {
            idle = 0;
            last = now;
        }
        if idle > 20 * 60 {
            // one minute without finishing a single event
            let mut real = current.lock().map(|c| c.clone()).unwrap_or_default();
            real.push(json!({"t": "hang"}));
            println!("{}", json!({"hang": {"case": case_no.load(Ordering::Relaxed), "real": real}}));
            std::process::exit(0);
        }
    }
    match worker.join() {
        Ok(Ok(v)) => println!("{v}"),
        Ok(Err(e)) => {
            eprintln!("framing: {e}");
            std::process::exit(2);
        }
        Err(_) => {
            eprintln!("framing: driver thread panicked: {}", PANIC_MSG.lock().unwrap());
            std::process::exit(2);
        }
    }
}
