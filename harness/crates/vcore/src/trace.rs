//! tracefmt: projection of hook records to the ndjson trace format checked by the TLA+ trace
//! specifications (see /verif/spec/README.md for the field table).
//!
//! * every UUID-like value (object/service uuids, all cookies, type ids) becomes a small integer
//!   token, numbered from 1 in order of first appearance; 0 means "none";
//! * every payload becomes a small integer token by equality of its bytes; 0 means "none";
//! * u32 values that the specs only compare (serials, function/event ids, versions) are mapped to
//!   the signed 32-bit integer with the same bit pattern (TLC integers are 32-bit);
//! * channel capacities, which the specs do arithmetic on, become two base-65536 limbs [hi, lo];
//! * the sends of one broker micro-step are grouped into the `out` array of the record of the event
//!   or work item that caused them.

use aldrin_broker::verif::{Dump, DumpChannelEnd, Record, Work};
use aldrin_core::message::*;
use aldrin_core::{
    BusEvent, BusListenerFilter, BusListenerScope, ChannelEnd, ChannelEndWithCapacity,
    ProtocolVersion, SerializedValueSlice, ServiceInfo, TypeId,
};
use serde_json::{json, Map, Value as J};
use std::collections::{HashMap, HashSet};
use uuid::Uuid;

pub fn u32j(x: u32) -> i64 {
    (x as i32) as i64
}

pub fn cap(x: u32) -> J {
    json!([(x >> 16) as i64, (x & 0xffff) as i64])
}

#[derive(Default)]
pub struct Namer {
    uuids: HashMap<Uuid, i64>,
    payloads: HashMap<Vec<u8>, i64>,
}

impl Namer {
    pub fn new() -> Self {
        Self::default()
    }

    pub fn uuid(&mut self, u: Uuid) -> i64 {
        let n = self.uuids.len() as i64 + 1;
        *self.uuids.entry(u).or_insert(n)
    }

    pub fn opt(&mut self, u: Option<Uuid>) -> i64 {
        u.map(|u| self.uuid(u)).unwrap_or(0)
    }

    pub fn payload(&mut self, v: &SerializedValueSlice) -> i64 {
        let bytes: &[u8] = v.as_ref();
        let n = self.payloads.len() as i64 + 1;
        *self.payloads.entry(bytes.to_vec()).or_insert(n)
    }

    pub fn lookup(&self, u: Uuid) -> Option<i64> {
        self.uuids.get(&u).copied()
    }
}

fn end_str(e: ChannelEnd) -> &'static str {
    match e {
        ChannelEnd::Sender => "Sender",
        ChannelEnd::Receiver => "Receiver",
    }
}

fn endc(e: ChannelEndWithCapacity) -> (&'static str, J) {
    match e {
        ChannelEndWithCapacity::Sender => ("Sender", cap(0)),
        ChannelEndWithCapacity::Receiver(c) => ("Receiver", cap(c)),
    }
}

pub fn scope_str(s: BusListenerScope) -> &'static str {
    match s {
        BusListenerScope::Current => "Current",
        BusListenerScope::New => "New",
        BusListenerScope::All => "All",
    }
}

pub fn filter_json(n: &mut Namer, f: BusListenerFilter) -> J {
    match f {
        BusListenerFilter::Object(o) => json!({"ft": "obj", "o": n.opt(o.map(|o| o.0)), "s": 0}),
        BusListenerFilter::Service(s) => {
            json!({"ft": "svc", "o": n.opt(s.object.map(|o| o.0)), "s": n.opt(s.service.map(|s| s.0))})
        }
    }
}

fn info_json(n: &mut Namer, info: Option<ServiceInfo>) -> J {
    match info {
        Some(i) => json!({
            "ok": true,
            "ver": u32j(i.version()),
            "tid": n.opt(i.type_id().map(|t| t.0)),
            "sa": match i.subscribe_all() { None => "none", Some(true) => "true", Some(false) => "false" },
        }),
        None => json!({"ok": false, "ver": 0, "tid": 0, "sa": "none"}),
    }
}

pub fn bus_event_json(n: &mut Namer, m: &mut Map<String, J>, ev: BusEvent) {
    let (kind, o, s) = match ev {
        BusEvent::ObjectCreated(o) => ("ObjectCreated", o, None),
        BusEvent::ObjectDestroyed(o) => ("ObjectDestroyed", o, None),
        BusEvent::ServiceCreated(s) => ("ServiceCreated", s.object_id, Some(s)),
        BusEvent::ServiceDestroyed(s) => ("ServiceDestroyed", s.object_id, Some(s)),
    };
    m.insert("be".into(), json!(kind));
    m.insert("ouuid".into(), json!(n.uuid(o.uuid.0)));
    m.insert("ocookie".into(), json!(n.uuid(o.cookie.0)));
    m.insert("suuid".into(), json!(s.map(|s| n.uuid(s.uuid.0)).unwrap_or(0)));
    m.insert("scookie".into(), json!(s.map(|s| n.uuid(s.cookie.0)).unwrap_or(0)));
}

macro_rules! obj {
    ($k:expr $(, $name:expr => $val:expr)* $(,)?) => {{
        let mut m = Map::new();
        m.insert("k".into(), json!($k));
        $( m.insert($name.into(), json!($val)); )*
        m
    }};
}

fn opt_serial(m: &mut Map<String, J>, s: Option<u32>) {
    m.insert("has".into(), json!(s.is_some()));
    m.insert("serial".into(), json!(s.map(u32j).unwrap_or(0)));
}

pub fn msg_json(n: &mut Namer, msg: &Message) -> J {
    let m = match msg {
        Message::Connect(_) => obj!("Connect"),
        Message::ConnectReply(_) => obj!("ConnectReply"),
        Message::Connect2(_) => obj!("Connect2"),
        Message::ConnectReply2(_) => obj!("ConnectReply2"),
        Message::Shutdown(_) => obj!("Shutdown"),
        Message::CreateObject(x) => obj!("CreateObject", "serial" => u32j(x.serial), "uuid" => n.uuid(x.uuid.0)),
        Message::CreateObjectReply(x) => {
            let (res, c) = match x.result {
                CreateObjectResult::Ok(c) => ("Ok", n.uuid(c.0)),
                CreateObjectResult::DuplicateObject => ("DuplicateObject", 0),
            };
            obj!("CreateObjectReply", "serial" => u32j(x.serial), "res" => res, "cookie" => c)
        }
        Message::DestroyObject(x) => obj!("DestroyObject", "serial" => u32j(x.serial), "cookie" => n.uuid(x.cookie.0)),
        Message::DestroyObjectReply(x) => obj!("DestroyObjectReply", "serial" => u32j(x.serial), "res" => match x.result {
            DestroyObjectResult::Ok => "Ok",
            DestroyObjectResult::InvalidObject => "InvalidObject",
            DestroyObjectResult::ForeignObject => "ForeignObject",
        }),
        Message::CreateService(x) => obj!("CreateService", "serial" => u32j(x.serial), "obj" => n.uuid(x.object_cookie.0),
            "uuid" => n.uuid(x.uuid.0), "ver" => u32j(x.version)),
        Message::CreateService2(x) => {
            let info = x.value.deserialize::<ServiceInfo>().ok();
            obj!("CreateService2", "serial" => u32j(x.serial), "obj" => n.uuid(x.object_cookie.0),
                "uuid" => n.uuid(x.uuid.0), "val" => n.payload(&x.value), "info" => info_json(n, info))
        }
        Message::CreateServiceReply(x) => {
            let (res, c) = match x.result {
                CreateServiceResult::Ok(c) => ("Ok", n.uuid(c.0)),
                CreateServiceResult::DuplicateService => ("DuplicateService", 0),
                CreateServiceResult::InvalidObject => ("InvalidObject", 0),
                CreateServiceResult::ForeignObject => ("ForeignObject", 0),
            };
            obj!("CreateServiceReply", "serial" => u32j(x.serial), "res" => res, "cookie" => c)
        }
        Message::DestroyService(x) => obj!("DestroyService", "serial" => u32j(x.serial), "cookie" => n.uuid(x.cookie.0)),
        Message::DestroyServiceReply(x) => obj!("DestroyServiceReply", "serial" => u32j(x.serial), "res" => match x.result {
            DestroyServiceResult::Ok => "Ok",
            DestroyServiceResult::InvalidService => "InvalidService",
            DestroyServiceResult::ForeignObject => "ForeignObject",
        }),
        Message::CallFunction(x) => obj!("CallFunction", "serial" => u32j(x.serial), "svc" => n.uuid(x.service_cookie.0),
            "fn" => u32j(x.function), "hv" => false, "ver" => 0, "val" => n.payload(&x.value)),
        Message::CallFunction2(x) => obj!("CallFunction2", "serial" => u32j(x.serial), "svc" => n.uuid(x.service_cookie.0),
            "fn" => u32j(x.function), "hv" => x.version.is_some(), "ver" => x.version.map(u32j).unwrap_or(0),
            "val" => n.payload(&x.value)),
        Message::CallFunctionReply(x) => {
            let (res, v) = match &x.result {
                CallFunctionResult::Ok(v) => ("Ok", n.payload(v)),
                CallFunctionResult::Err(v) => ("Err", n.payload(v)),
                CallFunctionResult::Aborted => ("Aborted", 0),
                CallFunctionResult::InvalidService => ("InvalidService", 0),
                CallFunctionResult::InvalidFunction => ("InvalidFunction", 0),
                CallFunctionResult::InvalidArgs => ("InvalidArgs", 0),
            };
            obj!("CallFunctionReply", "serial" => u32j(x.serial), "res" => res, "val" => v)
        }
        Message::SubscribeEvent(x) => {
            let mut m = obj!("SubscribeEvent", "svc" => n.uuid(x.service_cookie.0), "ev" => u32j(x.event));
            opt_serial(&mut m, x.serial);
            m
        }
        Message::SubscribeEventReply(x) => obj!("SubscribeEventReply", "serial" => u32j(x.serial), "res" => match x.result {
            SubscribeEventResult::Ok => "Ok",
            SubscribeEventResult::InvalidService => "InvalidService",
        }),
        Message::UnsubscribeEvent(x) => obj!("UnsubscribeEvent", "svc" => n.uuid(x.service_cookie.0), "ev" => u32j(x.event)),
        Message::EmitEvent(x) => obj!("EmitEvent", "svc" => n.uuid(x.service_cookie.0), "ev" => u32j(x.event),
            "val" => n.payload(&x.value)),
        Message::QueryServiceVersion(x) => obj!("QueryServiceVersion", "serial" => u32j(x.serial), "cookie" => n.uuid(x.cookie.0)),
        Message::QueryServiceVersionReply(x) => {
            let (res, v) = match x.result {
                QueryServiceVersionResult::Ok(v) => ("Ok", u32j(v)),
                QueryServiceVersionResult::InvalidService => ("InvalidService", 0),
            };
            obj!("QueryServiceVersionReply", "serial" => u32j(x.serial), "res" => res, "ver" => v)
        }
        Message::CreateChannel(x) => {
            let (e, c) = endc(x.end);
            obj!("CreateChannel", "serial" => u32j(x.serial), "end" => e, "cap" => c)
        }
        Message::CreateChannelReply(x) => obj!("CreateChannelReply", "serial" => u32j(x.serial), "cookie" => n.uuid(x.cookie.0)),
        Message::CloseChannelEnd(x) => obj!("CloseChannelEnd", "serial" => u32j(x.serial), "cookie" => n.uuid(x.cookie.0),
            "end" => end_str(x.end)),
        Message::CloseChannelEndReply(x) => obj!("CloseChannelEndReply", "serial" => u32j(x.serial), "res" => match x.result {
            CloseChannelEndResult::Ok => "Ok",
            CloseChannelEndResult::InvalidChannel => "InvalidChannel",
            CloseChannelEndResult::ForeignChannel => "ForeignChannel",
        }),
        Message::ChannelEndClosed(x) => obj!("ChannelEndClosed", "cookie" => n.uuid(x.cookie.0), "end" => end_str(x.end)),
        Message::ClaimChannelEnd(x) => {
            let (e, c) = endc(x.end);
            obj!("ClaimChannelEnd", "serial" => u32j(x.serial), "cookie" => n.uuid(x.cookie.0), "end" => e, "cap" => c)
        }
        Message::ClaimChannelEndReply(x) => {
            let (res, c) = match x.result {
                ClaimChannelEndResult::SenderClaimed(c) => ("SenderClaimed", cap(c)),
                ClaimChannelEndResult::ReceiverClaimed => ("ReceiverClaimed", cap(0)),
                ClaimChannelEndResult::InvalidChannel => ("InvalidChannel", cap(0)),
                ClaimChannelEndResult::AlreadyClaimed => ("AlreadyClaimed", cap(0)),
            };
            obj!("ClaimChannelEndReply", "serial" => u32j(x.serial), "res" => res, "cap" => c)
        }
        Message::ChannelEndClaimed(x) => {
            let (e, c) = endc(x.end);
            obj!("ChannelEndClaimed", "cookie" => n.uuid(x.cookie.0), "end" => e, "cap" => c)
        }
        Message::SendItem(x) => obj!("SendItem", "cookie" => n.uuid(x.cookie.0), "val" => n.payload(&x.value)),
        Message::ItemReceived(x) => obj!("ItemReceived", "cookie" => n.uuid(x.cookie.0), "val" => n.payload(&x.value)),
        Message::AddChannelCapacity(x) => obj!("AddChannelCapacity", "cookie" => n.uuid(x.cookie.0), "cap" => cap(x.capacity)),
        Message::Sync(x) => obj!("Sync", "serial" => u32j(x.serial)),
        Message::SyncReply(x) => obj!("SyncReply", "serial" => u32j(x.serial)),
        Message::ServiceDestroyed(x) => obj!("ServiceDestroyed", "svc" => n.uuid(x.service_cookie.0)),
        Message::CreateBusListener(x) => obj!("CreateBusListener", "serial" => u32j(x.serial)),
        Message::CreateBusListenerReply(x) => obj!("CreateBusListenerReply", "serial" => u32j(x.serial), "cookie" => n.uuid(x.cookie.0)),
        Message::DestroyBusListener(x) => obj!("DestroyBusListener", "serial" => u32j(x.serial), "cookie" => n.uuid(x.cookie.0)),
        Message::DestroyBusListenerReply(x) => obj!("DestroyBusListenerReply", "serial" => u32j(x.serial), "res" => match x.result {
            DestroyBusListenerResult::Ok => "Ok",
            DestroyBusListenerResult::InvalidBusListener => "InvalidBusListener",
        }),
        Message::AddBusListenerFilter(x) => obj!("AddBusListenerFilter", "cookie" => n.uuid(x.cookie.0), "filter" => filter_json(n, x.filter)),
        Message::RemoveBusListenerFilter(x) => obj!("RemoveBusListenerFilter", "cookie" => n.uuid(x.cookie.0), "filter" => filter_json(n, x.filter)),
        Message::ClearBusListenerFilters(x) => obj!("ClearBusListenerFilters", "cookie" => n.uuid(x.cookie.0)),
        Message::StartBusListener(x) => obj!("StartBusListener", "serial" => u32j(x.serial), "cookie" => n.uuid(x.cookie.0),
            "scope" => scope_str(x.scope)),
        Message::StartBusListenerReply(x) => obj!("StartBusListenerReply", "serial" => u32j(x.serial), "res" => match x.result {
            StartBusListenerResult::Ok => "Ok",
            StartBusListenerResult::InvalidBusListener => "InvalidBusListener",
            StartBusListenerResult::AlreadyStarted => "AlreadyStarted",
        }),
        Message::StopBusListener(x) => obj!("StopBusListener", "serial" => u32j(x.serial), "cookie" => n.uuid(x.cookie.0)),
        Message::StopBusListenerReply(x) => obj!("StopBusListenerReply", "serial" => u32j(x.serial), "res" => match x.result {
            StopBusListenerResult::Ok => "Ok",
            StopBusListenerResult::InvalidBusListener => "InvalidBusListener",
            StopBusListenerResult::NotStarted => "NotStarted",
        }),
        Message::EmitBusEvent(x) => {
            let mut m = obj!("EmitBusEvent", "lc" => n.opt(x.cookie.map(|c| c.0)));
            bus_event_json(n, &mut m, x.event);
            m
        }
        Message::BusListenerCurrentFinished(x) => obj!("BusListenerCurrentFinished", "cookie" => n.uuid(x.cookie.0)),
        Message::AbortFunctionCall(x) => obj!("AbortFunctionCall", "serial" => u32j(x.serial)),
        Message::RegisterIntrospection(x) => {
            let tids: Option<HashSet<TypeId>> = x.value.deserialize().ok();
            let ok = tids.is_some();
            let mut ts: Vec<i64> = tids.unwrap_or_default().into_iter().map(|t| n.uuid(t.0)).collect();
            ts.sort();
            obj!("RegisterIntrospection", "val" => n.payload(&x.value), "ok" => ok, "tids" => ts)
        }
        Message::QueryIntrospection(x) => obj!("QueryIntrospection", "serial" => u32j(x.serial), "tid" => n.uuid(x.type_id.0)),
        Message::QueryIntrospectionReply(x) => {
            let (res, v) = match &x.result {
                QueryIntrospectionResult::Ok(v) => ("Ok", n.payload(v)),
                QueryIntrospectionResult::Unavailable => ("Unavailable", 0),
            };
            obj!("QueryIntrospectionReply", "serial" => u32j(x.serial), "res" => res, "val" => v)
        }
        Message::QueryServiceInfo(x) => obj!("QueryServiceInfo", "serial" => u32j(x.serial), "cookie" => n.uuid(x.cookie.0)),
        Message::QueryServiceInfoReply(x) => match &x.result {
            QueryServiceInfoResult::Ok(v) => {
                let info = v.deserialize::<ServiceInfo>().ok();
                obj!("QueryServiceInfoReply", "serial" => u32j(x.serial), "res" => "Ok", "val" => n.payload(v), "info" => info_json(n, info))
            }
            QueryServiceInfoResult::InvalidService => {
                obj!("QueryServiceInfoReply", "serial" => u32j(x.serial), "res" => "InvalidService", "val" => 0, "info" => info_json(n, None))
            }
        },
        Message::SubscribeService(x) => obj!("SubscribeService", "serial" => u32j(x.serial), "svc" => n.uuid(x.service_cookie.0)),
        Message::SubscribeServiceReply(x) => obj!("SubscribeServiceReply", "serial" => u32j(x.serial), "res" => match x.result {
            SubscribeServiceResult::Ok => "Ok",
            SubscribeServiceResult::InvalidService => "InvalidService",
        }),
        Message::UnsubscribeService(x) => obj!("UnsubscribeService", "svc" => n.uuid(x.service_cookie.0)),
        Message::SubscribeAllEvents(x) => {
            let mut m = obj!("SubscribeAllEvents", "svc" => n.uuid(x.service_cookie.0));
            opt_serial(&mut m, x.serial);
            m
        }
        Message::SubscribeAllEventsReply(x) => obj!("SubscribeAllEventsReply", "serial" => u32j(x.serial), "res" => match x.result {
            SubscribeAllEventsResult::Ok => "Ok",
            SubscribeAllEventsResult::InvalidService => "InvalidService",
            SubscribeAllEventsResult::NotSupported => "NotSupported",
        }),
        Message::UnsubscribeAllEvents(x) => {
            let mut m = obj!("UnsubscribeAllEvents", "svc" => n.uuid(x.service_cookie.0));
            opt_serial(&mut m, x.serial);
            m
        }
        Message::UnsubscribeAllEventsReply(x) => obj!("UnsubscribeAllEventsReply", "serial" => u32j(x.serial), "res" => match x.result {
            UnsubscribeAllEventsResult::Ok => "Ok",
            UnsubscribeAllEventsResult::InvalidService => "InvalidService",
            UnsubscribeAllEventsResult::NotSupported => "NotSupported",
        }),
    };
    J::Object(m)
}

pub fn ver(v: ProtocolVersion) -> i64 {
    if v.major() == 1 {
        v.minor() as i64
    } else {
        -1
    }
}

fn sorted(mut v: Vec<i64>) -> Vec<i64> {
    v.sort();
    v
}

fn end_json(e: DumpChannelEnd) -> J {
    match e {
        DumpChannelEnd::Unclaimed => json!({"st": "Unclaimed", "owner": -1, "cap": cap(0)}),
        DumpChannelEnd::Claimed { owner, capacity } => json!({"st": "Claimed", "owner": owner, "cap": cap(capacity)}),
        DumpChannelEnd::Closed => json!({"st": "Closed", "owner": -1, "cap": cap(0)}),
    }
}

pub fn dump_json(n: &mut Namer, d: &Dump) -> J {
    let mut conns: Vec<J> = Vec::new();
    let mut cs: Vec<_> = d.conns.iter().collect();
    cs.sort_by_key(|c| c.id);
    for c in cs {
        let mut events: Vec<(i64, Vec<i64>)> = c
            .events
            .iter()
            .map(|(s, evs)| (n.uuid(s.0), sorted(evs.iter().map(|&e| u32j(e)).collect())))
            .collect();
        events.sort();
        let mut calls: Vec<(i64, i64, i64)> = c.calls.iter().map(|&(a, b, id)| (u32j(a), u32j(b), id as i64)).collect();
        calls.sort();
        conns.push(json!({
            "id": c.id,
            "ver": ver(c.version),
            "objects": sorted(c.objects.iter().map(|x| n.uuid(x.0)).collect()),
            "events": events.iter().map(|(s, e)| json!({"svc": s, "evs": e})).collect::<Vec<_>>(),
            "allEvents": sorted(c.all_events.iter().map(|x| n.uuid(x.0)).collect()),
            "subs": sorted(c.subscriptions.iter().map(|x| n.uuid(x.0)).collect()),
            "senders": sorted(c.senders.iter().map(|x| n.uuid(x.0)).collect()),
            "receivers": sorted(c.receivers.iter().map(|x| n.uuid(x.0)).collect()),
            "listeners": sorted(c.bus_listeners.iter().map(|x| n.uuid(x.0)).collect()),
            "calls": calls.iter().map(|&(a, b, id)| json!({"cs": a, "bs": b, "callee": id})).collect::<Vec<_>>(),
        }));
    }

    let mut obj_uuids: Vec<(i64, i64)> = d.obj_uuids.iter().map(|(c, u)| (n.uuid(c.0), n.uuid(u.0))).collect();
    obj_uuids.sort();
    let mut objs: Vec<(i64, J)> = d
        .objs
        .iter()
        .map(|o| {
            let u = n.uuid(o.uuid.0);
            (u, json!({"uuid": u, "conn": o.conn, "cookie": n.uuid(o.cookie.0),
                "svcs": sorted(o.services.iter().map(|x| n.uuid(x.0)).collect())}))
        })
        .collect();
    objs.sort_by_key(|x| x.0);
    let mut svc_uuids: Vec<(i64, J)> = d
        .svc_uuids
        .iter()
        .map(|s| {
            let c = n.uuid(s.cookie.0);
            (c, json!({"cookie": c, "ouuid": n.uuid(s.object.uuid.0), "ocookie": n.uuid(s.object.cookie.0),
                "suuid": n.uuid(s.uuid.0), "ver": u32j(s.version), "tid": n.opt(s.type_id.map(|t| t.0)),
                "sa": match s.subscribe_all { None => "none", Some(true) => "true", Some(false) => "false" }}))
        })
        .collect();
    svc_uuids.sort_by_key(|x| x.0);
    let mut svcs: Vec<(i64, J)> = d
        .svcs
        .iter()
        .map(|s| {
            let c = n.uuid(s.cookie.0);
            let mut events: Vec<(i64, Vec<i64>)> = s
                .events
                .iter()
                .map(|(e, cs)| (u32j(*e), sorted(cs.iter().map(|&x| x as i64).collect())))
                .collect();
            events.sort();
            (c, json!({"cookie": c, "ouuid": n.uuid(s.object_uuid.0), "suuid": n.uuid(s.uuid.0),
                "ocookie": n.uuid(s.object_cookie.0),
                "calls": sorted(s.function_calls.iter().map(|&x| u32j(x)).collect()),
                "events": events.iter().map(|(e, cs)| json!({"ev": e, "conns": cs})).collect::<Vec<_>>(),
                "allEvents": sorted(s.all_events.iter().map(|&x| x as i64).collect()),
                "subs": sorted(s.subscriptions.iter().map(|&x| x as i64).collect())}))
        })
        .collect();
    svcs.sort_by_key(|x| x.0);
    let mut calls: Vec<(i64, J)> = d
        .calls
        .iter()
        .map(|c| {
            (u32j(c.serial), json!({"bs": u32j(c.serial), "cs": u32j(c.caller_serial), "caller": c.caller,
                "ouuid": n.uuid(c.callee_obj.0), "suuid": n.uuid(c.callee_svc.0), "aborted": c.aborted}))
        })
        .collect();
    calls.sort_by_key(|x| x.0);
    let mut chans: Vec<(i64, J)> = d
        .channels
        .iter()
        .map(|c| {
            let k = n.uuid(c.cookie.0);
            (k, json!({"cookie": k, "snd": end_json(c.sender), "rcv": end_json(c.receiver)}))
        })
        .collect();
    chans.sort_by_key(|x| x.0);
    let mut lsts: Vec<(i64, J)> = d
        .bus_listeners
        .iter()
        .map(|l| {
            let k = n.uuid(l.cookie.0);
            let mut fs: Vec<BusListenerFilter> = l.filters.clone();
            fs.sort();
            (k, json!({"cookie": k, "conn": l.conn,
                "filters": fs.into_iter().map(|f| filter_json(n, f)).collect::<Vec<_>>(),
                "scope": l.scope.map(scope_str).unwrap_or("None"),
                "allObjs": l.matches_all_objects, "specificSvcs": l.matches_specific_services}))
        })
        .collect();
    lsts.sort_by_key(|x| x.0);
    let mut intro: Vec<(i64, J)> = d
        .introspection
        .iter()
        .map(|e| {
            let t = n.uuid(e.type_id.0);
            (t, json!({"tid": t, "conns": sorted(e.conns.iter().map(|&x| x as i64).collect()), "indexOk": e.index_ok,
                "cached": e.cached,
                "qconn": e.queried.map(|q| q.0 as i64).unwrap_or(-1),
                "qserial": e.queried.map(|q| u32j(q.1)).unwrap_or(0),
                "pending": e.pending.iter().map(|p| json!({"conn": p.0, "serial": u32j(p.1)})).collect::<Vec<_>>()}))
        })
        .collect();
    intro.sort_by_key(|x| x.0);
    let mut qi: Vec<(i64, i64)> = d.query_introspection.iter().map(|(s, t)| (u32j(*s), n.uuid(t.0))).collect();
    qi.sort();

    json!({
        "conns": conns,
        "objUuids": obj_uuids.iter().map(|(c, u)| json!({"cookie": c, "uuid": u})).collect::<Vec<_>>(),
        "objs": objs.into_iter().map(|x| x.1).collect::<Vec<_>>(),
        "svcUuids": svc_uuids.into_iter().map(|x| x.1).collect::<Vec<_>>(),
        "svcs": svcs.into_iter().map(|x| x.1).collect::<Vec<_>>(),
        "calls": calls.into_iter().map(|x| x.1).collect::<Vec<_>>(),
        "chans": chans.into_iter().map(|x| x.1).collect::<Vec<_>>(),
        "lsts": lsts.into_iter().map(|x| x.1).collect::<Vec<_>>(),
        "intro": intro.into_iter().map(|x| x.1).collect::<Vec<_>>(),
        "queryIntro": qi.iter().map(|(s, t)| json!({"serial": s, "tid": t})).collect::<Vec<_>>(),
        "shutdownNow": d.shutdown_now,
        "shutdownIdle": d.shutdown_idle,
        "stats": {"conns": d.num_connections, "objs": d.num_objects, "svcs": d.num_services,
            "chans": d.num_channels, "lsts": d.num_bus_listeners, "intros": d.num_introspections},
    })
}

fn work_json(n: &mut Namer, w: &Work) -> Map<String, J> {
    let mut m = Map::new();
    m.insert("t".into(), json!("work"));
    let mut put = |k: &str, v: J| {
        m.insert(k.into(), v);
    };
    // uniform shape: w, c (connection or -1), svc, ev, serial, res, and a bus event for the four bus works
    let (w_name, c, svc, ev, serial, res, sd) = match w {
        Work::RemoveConn { conn, send_shutdown } => ("removeConn", *conn as i64, 0, 0, 0, "", *send_shutdown),
        Work::UnsubscribeEvent { conn, service, event } => ("unsubscribeEvent", *conn as i64, n.uuid(service.0), u32j(*event), 0, "", false),
        Work::UnsubscribeAllEvents { conn, service } => ("unsubscribeAllEvents", *conn as i64, n.uuid(service.0), 0, 0, "", false),
        Work::ServiceDestroyed { conn, service } => ("serviceDestroyed", *conn as i64, n.uuid(service.0), 0, 0, "", false),
        Work::RemoveFunctionCall { serial, conn, result } => (
            "removeCall",
            *conn as i64,
            0,
            0,
            u32j(*serial),
            match result {
                CallFunctionResult::Ok(_) => "Ok",
                CallFunctionResult::Err(_) => "Err",
                CallFunctionResult::Aborted => "Aborted",
                CallFunctionResult::InvalidService => "InvalidService",
                CallFunctionResult::InvalidFunction => "InvalidFunction",
                CallFunctionResult::InvalidArgs => "InvalidArgs",
            },
            false,
        ),
        Work::CreateObject(_) => ("objCreated", -1, 0, 0, 0, "", false),
        Work::CreateService(_) => ("svcCreated", -1, 0, 0, 0, "", false),
        Work::DestroyService(_) => ("svcDestroyed", -1, 0, 0, 0, "", false),
        Work::DestroyObject(_) => ("objDestroyed", -1, 0, 0, 0, "", false),
        Work::AbortFunctionCall { serial, callee } => ("abortCall", *callee as i64, 0, 0, u32j(*serial), "", false),
    };
    put("w", json!(w_name));
    put("c", json!(c));
    put("svc", json!(svc));
    put("ev", json!(ev));
    put("serial", json!(serial));
    put("res", json!(res));
    put("sd", json!(sd));
    let be = match w {
        Work::CreateObject(o) => Some(BusEvent::ObjectCreated(*o)),
        Work::DestroyObject(o) => Some(BusEvent::ObjectDestroyed(*o)),
        Work::CreateService(s) => Some(BusEvent::ServiceCreated(*s)),
        Work::DestroyService(s) => Some(BusEvent::ServiceDestroyed(*s)),
        _ => None,
    };
    match be {
        Some(be) => bus_event_json(n, &mut m, be),
        None => {
            m.insert("be".into(), json!(""));
            m.insert("ouuid".into(), json!(0));
            m.insert("ocookie".into(), json!(0));
            m.insert("suuid".into(), json!(0));
            m.insert("scookie".into(), json!(0));
        }
    }
    m
}

/// Items of the raw, ordered stream the trace is built from: hook records interleaved with markers
/// emitted by the harness itself.
#[derive(Debug, Clone)]
pub enum Item {
    Hook(Record),
    /// The harness dropped the `Connection::run` future of this connection.
    TaskDropped(usize),
    /// Free-form harness marker (ignored by the specs unless they know the tag).
    Marker(J),
}

/// Builds the ndjson lines of a trace from the raw stream.
pub fn build_trace(n: &mut Namer, items: &[Item]) -> Vec<J> {
    let mut out: Vec<J> = Vec::new();
    let mut cur: Option<Map<String, J>> = None;
    let mut sends: Vec<J> = Vec::new();

    fn flush(out: &mut Vec<J>, cur: &mut Option<Map<String, J>>, sends: &mut Vec<J>) {
        if let Some(mut m) = cur.take() {
            m.insert("out".into(), J::Array(std::mem::take(sends)));
            out.push(J::Object(m));
        } else {
            debug_assert!(sends.is_empty(), "send outside of a step");
            sends.clear();
        }
    }

    for it in items {
        match it {
            Item::Hook(Record::Send { conn, ok, msg, from }) => {
                sends.push(json!({"c": conn, "ok": ok, "from": from.map(ver).unwrap_or(0), "m": msg_json(n, msg)}));
            }
            Item::Hook(rec) => {
                flush(&mut out, &mut cur, &mut sends);
                let mut m = Map::new();
                match rec {
                    Record::NewConn { conn, version } => {
                        m.insert("t".into(), json!("new"));
                        m.insert("c".into(), json!(conn));
                        m.insert("ver".into(), json!(ver(*version)));
                    }
                    Record::ConnShutdown { conn } => {
                        m.insert("t".into(), json!("shut"));
                        m.insert("c".into(), json!(conn));
                    }
                    Record::Msg { conn, msg } => {
                        m.insert("t".into(), json!("msg"));
                        m.insert("c".into(), json!(conn));
                        m.insert("m".into(), msg_json(n, msg));
                    }
                    Record::ShutdownBroker => {
                        m.insert("t".into(), json!("sdb"));
                    }
                    Record::ShutdownIdle => {
                        m.insert("t".into(), json!("sdi"));
                    }
                    Record::ShutdownConn { conn } => {
                        m.insert("t".into(), json!("sdc"));
                        m.insert("c".into(), json!(conn));
                    }
                    Record::Other => {
                        m.insert("t".into(), json!("other"));
                    }
                    Record::Work(w) => {
                        m = work_json(n, w);
                    }
                    Record::Idle(d) => {
                        m.insert("t".into(), json!("idle"));
                        m.insert("st".into(), dump_json(n, d));
                    }
                    Record::Stop => {
                        m.insert("t".into(), json!("stop"));
                    }
                    Record::Send { .. } => unreachable!(),
                }
                cur = Some(m);
            }
            Item::TaskDropped(c) => {
                flush(&mut out, &mut cur, &mut sends);
                let mut m = Map::new();
                m.insert("t".into(), json!("dead"));
                m.insert("c".into(), json!(c));
                cur = Some(m);
            }
            Item::Marker(j) => {
                flush(&mut out, &mut cur, &mut sends);
                if let J::Object(m) = j {
                    cur = Some(m.clone());
                }
            }
        }
    }
    flush(&mut out, &mut cur, &mut sends);
    out
}
