//! vexec: a single-threaded, deterministic, seeded executor.
//!
//! Tasks are boxed (non-Send) futures with a name. A task is *ready* when its waker was invoked
//! since its last poll (every task starts ready). `step` polls exactly one ready task chosen by
//! the caller's policy. Every poll is wrapped in `catch_unwind`: a panic of the code under test
//! is data (the task is retired and the panic message recorded), never a harness failure.

use crate::rng::Rng;
use std::cell::RefCell;
use std::future::Future;
use std::panic::{catch_unwind, AssertUnwindSafe};
use std::pin::Pin;
use std::rc::Rc;
use std::sync::atomic::{AtomicBool, Ordering};
use std::sync::Arc;
use std::task::{Context, Poll, Wake, Waker};

pub type TaskId = usize;

struct Flag(AtomicBool);

impl Wake for Flag {
    fn wake(self: Arc<Self>) {
        self.0.store(true, Ordering::SeqCst);
    }

    fn wake_by_ref(self: &Arc<Self>) {
        self.0.store(true, Ordering::SeqCst);
    }
}

#[derive(Debug, Clone, PartialEq, Eq)]
pub enum TaskState {
    Running,
    Done,
    Panicked(String),
    Dropped,
}

struct Task {
    name: String,
    fut: Option<Pin<Box<dyn Future<Output = ()>>>>,
    flag: Arc<Flag>,
    state: TaskState,
    polls: u64,
}

#[derive(Default)]
pub struct Executor {
    tasks: Vec<Task>,
    pub steps: u64,
}

#[derive(Debug, Clone, Copy, PartialEq, Eq)]
pub enum RunOutcome {
    /// No task is ready.
    Quiescent,
    /// The step bound was hit while tasks were still ready.
    StepBound,
}

thread_local! {
    static PANIC_MSG: RefCell<Option<String>> = const { RefCell::new(None) };
}

/// Installs a panic hook that records the message (with location) instead of printing it. Call once.
pub fn install_panic_hook() {
    std::panic::set_hook(Box::new(|info| {
        let loc = info
            .location()
            .map(|l| format!("{}:{}", l.file(), l.line()))
            .unwrap_or_default();
        let msg = if let Some(s) = info.payload().downcast_ref::<&str>() {
            (*s).to_string()
        } else if let Some(s) = info.payload().downcast_ref::<String>() {
            s.clone()
        } else {
            "<non-string panic>".to_string()
        };
        PANIC_MSG.with(|p| *p.borrow_mut() = Some(format!("{loc}: {msg}")));
    }));
}

pub fn take_panic_msg() -> Option<String> {
    PANIC_MSG.with(|p| p.borrow_mut().take())
}

impl Executor {
    pub fn new() -> Self {
        Self::default()
    }

    pub fn spawn(&mut self, name: impl Into<String>, fut: impl Future<Output = ()> + 'static) -> TaskId {
        let id = self.tasks.len();
        self.tasks.push(Task {
            name: name.into(),
            fut: Some(Box::pin(fut)),
            flag: Arc::new(Flag(AtomicBool::new(true))),
            state: TaskState::Running,
            polls: 0,
        });
        id
    }

    pub fn name(&self, id: TaskId) -> &str {
        &self.tasks[id].name
    }

    pub fn state(&self, id: TaskId) -> &TaskState {
        &self.tasks[id].state
    }

    pub fn polls(&self, id: TaskId) -> u64 {
        self.tasks[id].polls
    }

    pub fn is_running(&self, id: TaskId) -> bool {
        self.tasks[id].state == TaskState::Running
    }

    /// Drops the future of a task without polling it again (models a task that is cancelled).
    pub fn drop_task(&mut self, id: TaskId) {
        let t = &mut self.tasks[id];
        if t.state == TaskState::Running {
            // Dropping a future runs destructors of the code under test; they may panic too.
            let fut = t.fut.take();
            let res = catch_unwind(AssertUnwindSafe(move || drop(fut)));
            t.state = match res {
                Ok(()) => TaskState::Dropped,
                Err(_) => TaskState::Panicked(take_panic_msg().unwrap_or_default()),
            };
        }
    }

    pub fn ready(&self) -> Vec<TaskId> {
        self.tasks
            .iter()
            .enumerate()
            .filter(|(_, t)| t.state == TaskState::Running && t.flag.0.load(Ordering::SeqCst))
            .map(|(i, _)| i)
            .collect()
    }

    pub fn running(&self) -> Vec<TaskId> {
        self.tasks
            .iter()
            .enumerate()
            .filter(|(_, t)| t.state == TaskState::Running)
            .map(|(i, _)| i)
            .collect()
    }

    pub fn panicked(&self) -> Vec<(TaskId, String, String)> {
        self.tasks
            .iter()
            .enumerate()
            .filter_map(|(i, t)| match &t.state {
                TaskState::Panicked(m) => Some((i, t.name.clone(), m.clone())),
                _ => None,
            })
            .collect()
    }

    /// Polls task `id` once (it must be running). Returns true if it finished or panicked.
    pub fn poll_task(&mut self, id: TaskId) -> bool {
        self.steps += 1;
        let t = &mut self.tasks[id];
        debug_assert!(t.state == TaskState::Running);
        t.flag.0.store(false, Ordering::SeqCst);
        t.polls += 1;
        let waker = Waker::from(t.flag.clone());
        let mut cx = Context::from_waker(&waker);
        let fut = t.fut.as_mut().unwrap();
        let res = catch_unwind(AssertUnwindSafe(|| fut.as_mut().poll(&mut cx)));
        match res {
            Ok(Poll::Pending) => false,
            Ok(Poll::Ready(())) => {
                t.state = TaskState::Done;
                t.fut = None;
                true
            }
            Err(_) => {
                t.state = TaskState::Panicked(take_panic_msg().unwrap_or_default());
                // The future is in an unknown state: leak it rather than running more destructors
                // of half-updated code under test.
                std::mem::forget(t.fut.take());
                true
            }
        }
    }

    /// Polls one ready task chosen uniformly with `rng` among those accepted by `filter`.
    pub fn step_filtered(&mut self, rng: &mut Rng, filter: impl Fn(TaskId, &str) -> bool) -> Option<TaskId> {
        let ready: Vec<TaskId> = self
            .ready()
            .into_iter()
            .filter(|&i| filter(i, &self.tasks[i].name))
            .collect();
        if ready.is_empty() {
            return None;
        }
        let id = ready[rng.below(ready.len() as u64) as usize];
        self.poll_task(id);
        Some(id)
    }

    pub fn step(&mut self, rng: &mut Rng) -> Option<TaskId> {
        self.step_filtered(rng, |_, _| true)
    }

    pub fn run_until_quiescent(&mut self, rng: &mut Rng, max_steps: u64) -> RunOutcome {
        self.run_until_quiescent_filtered(rng, max_steps, |_, _| true)
    }

    pub fn run_until_quiescent_filtered(
        &mut self,
        rng: &mut Rng,
        max_steps: u64,
        filter: impl Fn(TaskId, &str) -> bool,
    ) -> RunOutcome {
        for _ in 0..max_steps {
            if self.step_filtered(rng, &filter).is_none() {
                return RunOutcome::Quiescent;
            }
        }
        if self.ready().into_iter().any(|i| filter(i, &self.tasks[i].name)) {
            RunOutcome::StepBound
        } else {
            RunOutcome::Quiescent
        }
    }
}

/// A shared cell tasks use to publish results to the (synchronous) driver.
pub type Shared<T> = Rc<RefCell<T>>;

pub fn shared<T>(v: T) -> Shared<T> {
    Rc::new(RefCell::new(v))
}
