//! Small deterministic RNG (splitmix64 seeding + xorshift64*), no external dependency.

#[derive(Debug, Clone)]
pub struct Rng(u64);

impl Rng {
    pub fn new(seed: u64) -> Self {
        let mut z = seed.wrapping_add(0x9E37_79B9_7F4A_7C15);
        z = (z ^ (z >> 30)).wrapping_mul(0xBF58_476D_1CE4_E5B9);
        z = (z ^ (z >> 27)).wrapping_mul(0x94D0_49BB_1331_11EB);
        z ^= z >> 31;
        Self(if z == 0 { 0x1234_5678_9ABC_DEF1 } else { z })
    }

    pub fn next_u64(&mut self) -> u64 {
        let mut x = self.0;
        x ^= x >> 12;
        x ^= x << 25;
        x ^= x >> 27;
        self.0 = x;
        x.wrapping_mul(0x2545_F491_4F6C_DD1D)
    }

    /// Uniform in 0..n (n > 0).
    pub fn below(&mut self, n: u64) -> u64 {
        debug_assert!(n > 0);
        self.next_u64() % n
    }

    pub fn chance(&mut self, num: u64, den: u64) -> bool {
        self.below(den) < num
    }

    pub fn pick<'a, T>(&mut self, xs: &'a [T]) -> &'a T {
        &xs[self.below(xs.len() as u64) as usize]
    }

    pub fn fork(&mut self) -> Rng {
        Rng::new(self.next_u64())
    }
}
