//! A broker with its connection tasks on the deterministic executor, driven synchronously through
//! raw (message-level) client ends. Used by the broker-level drivers.

use crate::exec::{shared, Executor, RunOutcome, Shared, TaskId, TaskState};
use crate::link::{pair, TErr, Tap};
use crate::rng::Rng;
use crate::trace::Item;
use aldrin_broker::verif::Record;
use aldrin_broker::{Broker, BrokerHandle, ConnectionHandle};
use aldrin_core::message::{Connect, Connect2, ConnectData, ConnectReply, ConnectResult, Message};
use aldrin_core::SerializedValue;

pub struct RawConn {
    /// client end of the transport (None once closed by the driver)
    pub t: Option<Tap>,
    /// task running `Connection::run`
    pub task: TaskId,
    /// result of `Connection::run` once it returned: Ok / error text
    pub run_result: Shared<Option<Result<(), String>>>,
    pub handle: ConnectionHandle,
    /// the broker's id of this connection
    pub id: usize,
    /// negotiated minor version
    pub version: u32,
    /// everything the raw client has received so far
    pub received: Vec<Message>,
    /// the client end observed a disconnect
    pub peer_gone: bool,
    pub task_dropped: bool,
    /// the raw client saw a `Shutdown` from the broker and has answered it (or closed)
    pub shutdown_answered: bool,
}

pub struct World {
    pub exec: Executor,
    pub items: Shared<Vec<Item>>,
    pub handle: BrokerHandle,
    pub broker_task: TaskId,
    pub conns: Vec<RawConn>,
    pub aux: u64,
}

pub enum ConnectOutcome {
    Connected(usize),
    Refused(Option<Message>),
}

impl World {
    /// Creates the broker, installs the trace sink on this thread and spawns `Broker::run`.
    pub fn new() -> Self {
        let items: Shared<Vec<Item>> = shared(Vec::new());
        let sink_items = items.clone();
        aldrin_broker::verif::set_sink(Some(Box::new(move |rec: Record| {
            sink_items.borrow_mut().push(Item::Hook(rec));
        })));

        let mut exec = Executor::new();
        let broker = Broker::new();
        let handle = broker.handle().clone();
        let broker_task = exec.spawn("broker", broker.run());

        Self {
            exec,
            items,
            handle,
            broker_task,
            conns: Vec::new(),
            aux: 0,
        }
    }

    pub fn broker_running(&self) -> bool {
        self.exec.is_running(self.broker_task)
    }

    pub fn marker(&self, j: serde_json::Value) {
        self.items.borrow_mut().push(Item::Marker(j));
    }

    /// Performs a real handshake. `connect2 = false` uses the legacy `Connect` message. Runs the
    /// executor (all tasks) until the handshake finished.
    pub fn connect(
        &mut self,
        rng: &mut Rng,
        major: u32,
        minor: u32,
        connect2: bool,
        fifo: Option<usize>,
    ) -> ConnectOutcome {
        let n = self.conns.len();
        let (broker_end, mut client_end) = pair(fifo, format!("b{n}"), format!("c{n}"), None);

        let hello: Message = if connect2 {
            Connect2 {
                major_version: major,
                minor_version: minor,
                value: SerializedValue::serialize(ConnectData::new()).unwrap(),
            }
            .into()
        } else {
            Connect {
                version: minor,
                value: SerializedValue::serialize(()).unwrap(),
            }
            .into()
        };
        client_end.try_send(hello).expect("fresh transport");

        let slot: Shared<Option<Result<aldrin_broker::Connection<Tap>, String>>> = shared(None);
        let slot2 = slot.clone();
        let mut handle = self.handle.clone();
        self.aux += 1;
        let t = self.exec.spawn(format!("accept{}", self.aux), async move {
            let res = handle.connect(broker_end).await.map_err(|e| format!("{e:?}"));
            *slot2.borrow_mut() = Some(res);
        });

        // Run until the accept task is done.
        let mut guard = 0;
        while self.exec.is_running(t) {
            if self.exec.step(rng).is_none() {
                break;
            }
            guard += 1;
            if guard > 100_000 {
                break;
            }
        }

        let res = slot.borrow_mut().take();
        match res {
            Some(Ok(conn)) => {
                // the reply must be there
                let reply = client_end.try_recv().ok().flatten();
                let version = match &reply {
                    Some(Message::ConnectReply2(r)) => match r.result {
                        ConnectResult::Ok(v) => v,
                        _ => return ConnectOutcome::Refused(reply),
                    },
                    Some(Message::ConnectReply(ConnectReply::Ok(_))) => 14,
                    _ => return ConnectOutcome::Refused(reply),
                };
                let handle = conn.handle().clone();
                let id = handle.verif_id();
                let run_result = shared(None);
                let rr = run_result.clone();
                let task = self.exec.spawn(format!("conn{id}#{n}"), async move {
                    let res = conn.run().await.map_err(|e| format!("{e:?}"));
                    *rr.borrow_mut() = Some(res);
                });
                self.conns.push(RawConn {
                    t: Some(client_end),
                    task,
                    run_result,
                    handle,
                    id,
                    version,
                    received: Vec::new(),
                    peer_gone: false,
                    task_dropped: false,
                    shutdown_answered: false,
                });
                ConnectOutcome::Connected(n)
            }
            _ => {
                let reply = client_end.try_recv().ok().flatten();
                ConnectOutcome::Refused(reply)
            }
        }
    }

    /// Raw client `i` sends a message (queued in the transport; the connection task forwards it
    /// to the broker when it is polled).
    pub fn send(&mut self, i: usize, msg: Message) -> bool {
        match self.conns[i].t.as_mut() {
            Some(t) => matches!(t.try_send(msg), Ok(true)),
            None => false,
        }
    }

    /// Drains what raw client `i` can receive right now.
    pub fn drain(&mut self, i: usize) -> Vec<Message> {
        let c = &mut self.conns[i];
        let mut got = Vec::new();
        if let Some(t) = c.t.as_mut() {
            loop {
                match t.try_recv() {
                    Ok(Some(m)) => got.push(m),
                    Ok(None) => break,
                    Err(TErr::Disconnected) | Err(TErr::Injected) => {
                        c.peer_gone = true;
                        break;
                    }
                }
            }
        }
        c.received.extend(got.iter().cloned());
        got
    }

    /// Behaves like a client that was told to shut down: answers every `Shutdown` it has seen with
    /// its own `Shutdown` (or, with `close`, by closing the transport). Returns how many answered.
    pub fn answer_shutdowns(&mut self, close: bool) -> usize {
        let mut n = 0;
        for i in 0..self.conns.len() {
            let c = &mut self.conns[i];
            if !c.shutdown_answered
                && c.t.is_some()
                && c.received.iter().any(|m| matches!(m, Message::Shutdown(_)))
            {
                c.shutdown_answered = true;
                n += 1;
                if close {
                    self.close_transport(i);
                } else {
                    self.send(i, aldrin_core::message::Shutdown.into());
                }
            }
        }
        n
    }

    pub fn drain_all(&mut self) {
        for i in 0..self.conns.len() {
            self.drain(i);
        }
    }

    /// The raw client closes its end of the transport (the connection task sees a transport error).
    pub fn close_transport(&mut self, i: usize) {
        if let Some(mut t) = self.conns[i].t.take() {
            t.close();
        }
    }

    /// Polls only the connection task of raw connection `i` (up to `max` times): what the client
    /// has sent is forwarded into the broker's queue while the broker itself does not run.
    pub fn pump_conn(&mut self, i: usize, max: u32) {
        let t = self.conns[i].task;
        for _ in 0..max {
            if !self.exec.is_running(t) || !self.exec.ready().contains(&t) {
                break;
            }
            self.exec.poll_task(t);
        }
    }

    /// The `Connection::run` future is dropped without being polled again.
    pub fn drop_conn_task(&mut self, i: usize) {
        let c = &mut self.conns[i];
        if self.exec.is_running(c.task) {
            self.exec.drop_task(c.task);
            c.task_dropped = true;
            self.items.borrow_mut().push(Item::TaskDropped(c.id));
        }
    }

    pub fn spawn_shutdown_broker(&mut self) {
        let mut h = self.handle.clone();
        self.aux += 1;
        self.exec.spawn(format!("aux{}", self.aux), async move {
            h.shutdown().await;
        });
    }

    pub fn spawn_shutdown_idle(&mut self) {
        let mut h = self.handle.clone();
        self.aux += 1;
        self.exec.spawn(format!("aux{}", self.aux), async move {
            h.shutdown_idle().await;
        });
    }

    pub fn spawn_shutdown_conn(&mut self, i: usize) {
        let mut h = self.handle.clone();
        let ch = self.conns[i].handle.clone();
        self.aux += 1;
        self.exec.spawn(format!("aux{}", self.aux), async move {
            let _ = h.shutdown_connection(&ch).await;
        });
    }

    /// Like the `spawn_shutdown_*` functions, but the task id is returned so that the caller can poll
    /// just this task (the request is then queued at the broker while the broker does not run).
    pub fn spawn_shutdown_broker_task(&mut self) -> TaskId {
        let mut h = self.handle.clone();
        self.aux += 1;
        self.exec.spawn(format!("aux{}", self.aux), async move {
            h.shutdown().await;
        })
    }

    pub fn spawn_shutdown_idle_task(&mut self) -> TaskId {
        let mut h = self.handle.clone();
        self.aux += 1;
        self.exec.spawn(format!("aux{}", self.aux), async move {
            h.shutdown_idle().await;
        })
    }

    pub fn spawn_shutdown_conn_task(&mut self, i: usize) -> TaskId {
        let mut h = self.handle.clone();
        let ch = self.conns[i].handle.clone();
        self.aux += 1;
        self.exec.spawn(format!("aux{}", self.aux), async move {
            let _ = h.shutdown_connection(&ch).await;
        })
    }

    pub fn run(&mut self, rng: &mut Rng, max_steps: u64) -> RunOutcome {
        let r = self.exec.run_until_quiescent(rng, max_steps);
        self.drain_all();
        r
    }

    pub fn steps(&mut self, rng: &mut Rng, k: u64) {
        for _ in 0..k {
            if self.exec.step(rng).is_none() {
                break;
            }
        }
    }

    /// The most recent state dump of the broker (from the hook's idle records).
    pub fn last_dump(&self) -> Option<aldrin_broker::verif::Dump> {
        self.items.borrow().iter().rev().find_map(|it| match it {
            Item::Hook(Record::Idle(d)) => Some((**d).clone()),
            _ => None,
        })
    }

    pub fn panics(&self) -> Vec<(TaskId, String, String)> {
        self.exec.panicked()
    }

    pub fn broker_state(&self) -> &TaskState {
        self.exec.state(self.broker_task)
    }

    /// Removes the sink and returns the raw stream.
    pub fn finish(self) -> Vec<Item> {
        aldrin_broker::verif::set_sink(None);
        let items = self.items.borrow().clone();
        items
    }
}

impl Default for World {
    fn default() -> Self {
        Self::new()
    }
}
