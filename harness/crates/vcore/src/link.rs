//! Transport adapter used by all drivers: wraps the repository's own channel transports
//! (`aldrin_core::channel::{Bounded, Unbounded}`), records every message that crosses it, counts
//! transport operations and can fail the k-th one (fault injection), and gives the synchronous
//! drivers non-blocking access.

use crate::exec::Shared;
use aldrin_core::channel::{Bounded, Unbounded};
use aldrin_core::message::Message;
use aldrin_core::transport::AsyncTransport;
use std::pin::Pin;
use std::sync::Arc;
use std::task::{Context, Poll, Wake, Waker};

#[derive(Debug)]
pub enum Inner {
    U(Unbounded),
    B(Bounded),
}

#[derive(Debug, Clone, Copy, PartialEq, Eq)]
pub enum TErr {
    Disconnected,
    Injected,
}

impl std::fmt::Display for TErr {
    fn fmt(&self, f: &mut std::fmt::Formatter) -> std::fmt::Result {
        write!(f, "{self:?}")
    }
}

impl std::error::Error for TErr {}

#[derive(Debug, Clone, Copy, PartialEq, Eq)]
pub enum Op {
    Recv,
    SendReady,
    SendStart,
    Flush,
}

#[derive(Debug, Clone)]
pub enum TapEvent {
    /// This end handed a message to the transport.
    Sent(Message),
    /// This end took a message out of the transport.
    Received(Message),
    /// An operation failed (injected or peer gone).
    Failed(Op, TErr),
}

#[derive(Debug, Default)]
pub struct TapLog {
    pub events: Vec<(u64, String, TapEvent)>,
    /// completed (non-pending) operations per label
    pub ops: std::collections::HashMap<String, u64>,
}

#[derive(Debug)]
pub struct Tap {
    inner: Option<Inner>,
    label: String,
    log: Option<Shared<TapLog>>,
    ops: u64,
    fail_at: Option<u64>,
    broken: bool,
    /// the injected failure breaks only the sending direction (a half-open connection): receives keep
    /// working, every send-side operation fails from the fault point on
    send_only: bool,
    send_broken: bool,
    /// rewrite the minor version of an outgoing Connect2 (lets the real client, which always asks
    /// for the latest version, negotiate an older one)
    rewrite_minor: Option<u32>,
}

impl Tap {
    pub fn new(inner: Inner, label: impl Into<String>, log: Option<Shared<TapLog>>) -> Self {
        Self {
            inner: Some(inner),
            label: label.into(),
            log,
            ops: 0,
            fail_at: None,
            broken: false,
            send_only: false,
            send_broken: false,
            rewrite_minor: None,
        }
    }

    pub fn rewrite_connect_minor(mut self, minor: Option<u32>) -> Self {
        self.rewrite_minor = minor;
        self
    }

    /// Fail the k-th (1-based) completed transport operation of this end and everything after it.
    pub fn fail_at(mut self, k: Option<u64>) -> Self {
        self.fail_at = k;
        self
    }

    /// The failure injected by `fail_at` affects only the sending direction.
    pub fn send_only(mut self, yes: bool) -> Self {
        self.send_only = yes;
        self
    }

    pub fn ops(&self) -> u64 {
        self.ops
    }

    fn rec(&self, ev: TapEvent) {
        if let Some(log) = &self.log {
            log.borrow_mut().events.push((crate::seq::next(), self.label.clone(), ev));
        }
    }

    /// Accounts one completed operation; returns Err if it must fail.
    fn account(&mut self, op: Op) -> Result<(), TErr> {
        if self.broken {
            return Err(TErr::Injected);
        }
        self.ops += 1;
        if let Some(log) = &self.log {
            *log.borrow_mut().ops.entry(self.label.clone()).or_insert(0) += 1;
        }
        if self.send_broken && !matches!(op, Op::Recv) {
            self.rec(TapEvent::Failed(op, TErr::Injected));
            return Err(TErr::Injected);
        }
        if self.send_only && !self.send_broken && self.fail_at.is_some_and(|k| self.ops >= k) && !matches!(op, Op::Recv) {
            // half-open: the first send-side operation at or after the fault point fails, and all later ones
            self.send_broken = true;
            self.rec(TapEvent::Failed(op, TErr::Injected));
            return Err(TErr::Injected);
        }
        if !self.send_only && self.fail_at == Some(self.ops) {
            self.broken = true;
            self.inner = None; // the peer observes a disconnect
            self.rec(TapEvent::Failed(op, TErr::Injected));
            return Err(TErr::Injected);
        }
        Ok(())
    }

    fn disconnected(&mut self, op: Op) -> TErr {
        self.rec(TapEvent::Failed(op, TErr::Disconnected));
        TErr::Disconnected
    }

    // ---- synchronous access for raw drivers -------------------------------------------------

    /// Non-blocking receive: `Ok(Some(msg))`, `Ok(None)` if nothing is available, `Err` if the
    /// peer is gone and everything was drained.
    pub fn try_recv(&mut self) -> Result<Option<Message>, TErr> {
        let waker = noop_waker();
        let mut cx = Context::from_waker(&waker);
        match Pin::new(self).receive_poll(&mut cx) {
            Poll::Ready(Ok(m)) => Ok(Some(m)),
            Poll::Ready(Err(e)) => Err(e),
            Poll::Pending => Ok(None),
        }
    }

    /// Non-blocking send (only meaningful on unbounded transports, or when there is room).
    /// Returns `Ok(false)` if the transport is full.
    pub fn try_send(&mut self, msg: Message) -> Result<bool, TErr> {
        let waker = noop_waker();
        let mut cx = Context::from_waker(&waker);
        match Pin::new(&mut *self).send_poll_ready(&mut cx) {
            Poll::Ready(Ok(())) => {}
            Poll::Ready(Err(e)) => return Err(e),
            Poll::Pending => return Ok(false),
        }
        Pin::new(&mut *self).send_start(msg)?;
        let _ = Pin::new(&mut *self).send_poll_flush(&mut cx);
        Ok(true)
    }

    /// Closes this end (the peer sees a disconnect once it drained what was sent).
    pub fn close(&mut self) {
        self.inner = None;
        self.broken = true;
    }
}

struct Noop;

impl Wake for Noop {
    fn wake(self: Arc<Self>) {}
}

pub fn noop_waker() -> Waker {
    Waker::from(Arc::new(Noop))
}

macro_rules! with_inner {
    ($self:expr, $op:expr, |$t:ident| $body:expr) => {{
        match $self.inner.as_mut() {
            Some(Inner::U($t)) => $body.map_err(|_| TErr::Disconnected),
            Some(Inner::B($t)) => $body.map_err(|_| TErr::Disconnected),
            None => Poll::Ready(Err(TErr::Injected)),
        }
    }};
}

impl AsyncTransport for Tap {
    type Error = TErr;

    fn receive_poll(mut self: Pin<&mut Self>, cx: &mut Context) -> Poll<Result<Message, TErr>> {
        let this = &mut *self;
        if this.broken {
            return Poll::Ready(Err(TErr::Injected));
        }
        let res = with_inner!(this, Op::Recv, |t| Pin::new(t).receive_poll(cx));
        match res {
            Poll::Pending => Poll::Pending,
            Poll::Ready(Ok(m)) => {
                if let Err(e) = this.account(Op::Recv) {
                    return Poll::Ready(Err(e));
                }
                this.rec(TapEvent::Received(m.clone()));
                Poll::Ready(Ok(m))
            }
            Poll::Ready(Err(_)) => Poll::Ready(Err(this.disconnected(Op::Recv))),
        }
    }

    fn send_poll_ready(mut self: Pin<&mut Self>, cx: &mut Context) -> Poll<Result<(), TErr>> {
        let this = &mut *self;
        if this.broken {
            return Poll::Ready(Err(TErr::Injected));
        }
        let res = with_inner!(this, Op::SendReady, |t| Pin::new(t).send_poll_ready(cx));
        match res {
            Poll::Pending => Poll::Pending,
            Poll::Ready(Ok(())) => Poll::Ready(this.account(Op::SendReady)),
            Poll::Ready(Err(_)) => Poll::Ready(Err(this.disconnected(Op::SendReady))),
        }
    }

    fn send_start(mut self: Pin<&mut Self>, msg: Message) -> Result<(), TErr> {
        let this = &mut *self;
        if this.broken {
            return Err(TErr::Injected);
        }
        this.account(Op::SendStart)?;
        let msg = match (msg, this.rewrite_minor) {
            (Message::Connect2(mut c), Some(minor)) => {
                c.minor_version = minor;
                Message::Connect2(c)
            }
            (m, _) => m,
        };
        let copy = msg.clone();
        let res = match this.inner.as_mut() {
            Some(Inner::U(t)) => Pin::new(t).send_start(msg).map_err(|_| TErr::Disconnected),
            Some(Inner::B(t)) => Pin::new(t).send_start(msg).map_err(|_| TErr::Disconnected),
            None => Err(TErr::Injected),
        };
        match res {
            Ok(()) => {
                this.rec(TapEvent::Sent(copy));
                Ok(())
            }
            Err(_) => Err(this.disconnected(Op::SendStart)),
        }
    }

    fn send_poll_flush(mut self: Pin<&mut Self>, cx: &mut Context) -> Poll<Result<(), TErr>> {
        let this = &mut *self;
        if this.broken {
            return Poll::Ready(Err(TErr::Injected));
        }
        let res = with_inner!(this, Op::Flush, |t| Pin::new(t).send_poll_flush(cx));
        match res {
            Poll::Pending => Poll::Pending,
            Poll::Ready(Ok(())) => Poll::Ready(this.account(Op::Flush)),
            Poll::Ready(Err(_)) => Poll::Ready(Err(this.disconnected(Op::Flush))),
        }
    }
}

/// Creates a connected pair over the repository's channel transports. `fifo = None` is unbounded.
pub fn pair(
    fifo: Option<usize>,
    label_a: impl Into<String>,
    label_b: impl Into<String>,
    log: Option<Shared<TapLog>>,
) -> (Tap, Tap) {
    match fifo {
        None => {
            let (a, b) = aldrin_core::channel::unbounded();
            (
                Tap::new(Inner::U(a), label_a, log.clone()),
                Tap::new(Inner::U(b), label_b, log),
            )
        }
        Some(n) => {
            let (a, b) = aldrin_core::channel::bounded(n);
            (
                Tap::new(Inner::B(a), label_a, log.clone()),
                Tap::new(Inner::B(b), label_b, log),
            )
        }
    }
}
