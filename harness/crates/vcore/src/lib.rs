//! Shared machinery of the verification harness: deterministic executor, transports with taps and
//! fault injection, projection of hook records to the trace format, broker world.
pub mod exec;
pub mod link;
pub mod rng;
pub mod trace;
pub mod world;

use std::io::Write;

/// Writes ndjson lines.
pub fn write_ndjson(path: &std::path::Path, lines: &[serde_json::Value]) -> std::io::Result<()> {
    let mut f = std::io::BufWriter::new(std::fs::File::create(path)?);
    for l in lines {
        serde_json::to_writer(&mut f, l)?;
        f.write_all(b"\n")?;
    }
    f.flush()
}
