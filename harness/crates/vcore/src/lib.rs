//! Shared machinery of the verification harness: deterministic executor, transports with taps and
//! fault injection, projection of hook records to the trace format, broker world.
pub mod exec;
pub mod link;
pub mod rng;
pub mod trace;
pub mod world;

use std::io::Write;

pub mod seq {
    use std::cell::Cell;
    thread_local! { static SEQ: Cell<u64> = const { Cell::new(0) }; }
    /// Next value of the thread-wide sequence counter (orders tap, API and hook events of one run).
    pub fn next() -> u64 {
        SEQ.with(|s| {
            let v = s.get() + 1;
            s.set(v);
            v
        })
    }
    pub fn reset() {
        SEQ.with(|s| s.set(0));
    }
}

/// Writes ndjson lines.
pub fn write_ndjson(path: &std::path::Path, lines: &[serde_json::Value]) -> std::io::Result<()> {
    let mut f = std::io::BufWriter::new(std::fs::File::create(path)?);
    for l in lines {
        serde_json::to_writer(&mut f, l)?;
        f.write_all(b"\n")?;
    }
    f.flush()
}
