//! C20, derive-macro types with partly implicit ids: the runtime of the generated corpus crate.
//!
//! /verif/lib/schema_checks.py turns every (kind, pattern) that TLC printed from SchemaDerive_MC.tla into a real
//! `#[derive(Tag, PrimaryTag, RefType, Serialize, Deserialize, Introspectable)]` type (`#[aldrin(id = N)]` only where
//! the pattern has an explicit id) in a crate under /verif/.work (never committed) whose `main` hands a table of
//! `Entry`s to `main` below.  This module holds everything that is not generated: observing a derived type through
//! the public API of aldrin-core, building the hand-written IR the specification describes, and the decisions.
//!
//! Per type, with the specification's expected assignment `ids` (SchemaDerive!AssignIds) and definition `def`:
//!   (a) WIRE ids: every variant / the struct with every field set is serialized (by value and by reference) with
//!       the derived Serialize impls and decoded as a dynamic aldrin_core::Value; a field is recognised by its value;
//!   (b) LAYOUT ids: the ids under which `Introspection::new::<T>()` lists the variants / fields (found by name);
//!   (c) the real TypeId::compute::<T>();
//!   (d) the TypeId of hand-built IR (public builders) of `def` - with the specification's ids and, where the wire
//!       deviates, with the ids observed on the wire.
//!
//!   D1 VIOLATION  panic in derived code / TypeId::compute / Introspection::new
//!   D2 VIOLATION  an item is serialized under one id and introspected under another (or is not in the layout):
//!                 the layout the type id is computed from is not the wire layout
//!   D3 VIOLATION  the type id of the derived type is not the id of hand-built IR with the ids used on the wire
//!   D4 VIOLATION  pairwise across the corpus (types whose wire ids are the specification's and that D2 / D3 did not name):
//!                 equal CanonId <=> equal TypeId
//!      DRIFT      the wire ids are not the specification's assignment although layout and wire agree (the derive
//!                 numbers consistently, but not by the documented rule): conformance, not C20
//!      DRIFT      by-value and by-reference serialization disagree, the derived Deserialize does not give back the value
//!                 (own bytes, or a dynamic value carrying the specification's ids): wire compatibility is C16's
//!
//! usage: <corpus> run --vectors F [--corrupt N]
use crate::{canonical_string, guarded, read_ndjson, silence_panics, Args, Findings};
use aldrin_core::introspection::{ir, DynIntrospectable, Introspectable, Introspection, LexicalId, References};
use aldrin_core::{DeserializePrimary, Enum as AEnum, SerializePrimary, SerializedValue, Struct as AStruct, TypeId, Value as AValue};
use serde_json::{json, Value};
use std::cell::RefCell;
use std::collections::{BTreeMap, BTreeSet, HashMap};

/// What a derived type shows through the public API.
#[derive(Default)]
pub struct Observed {
    /// per item in declaration order: the id it is serialized under (by value / by reference)
    pub wire: Vec<Option<u32>>,
    pub wire_ref: Vec<Option<u32>>,
    /// the derived Deserialize gives back the value from the derived Serialize's bytes
    pub roundtrip: Vec<bool>,
    /// ... and from a dynamic value that carries the item under the specification's id
    pub decodes_spec_ids: Vec<bool>,
    /// the layout: kind and (id, name, required) of every listed item
    pub layout_kind: &'static str,
    pub layout: Vec<(u32, String, Option<bool>)>,
    pub type_id: Option<TypeId>,
}

pub struct Entry {
    pub id: &'static str,
    /// argument: the specification's expected ids, per item
    pub observe: fn(&[u32]) -> Observed,
}

fn describe<T: Introspectable>(o: &mut Observed) {
    let intro = Introspection::new::<T>();
    if let Some(e) = intro.as_enum_layout() {
        o.layout_kind = "enum";
        o.layout = e.variants().iter().map(|(k, v)| (*k, v.name().to_owned(), None)).collect();
    } else if let Some(s) = intro.as_struct_layout() {
        o.layout_kind = "struct";
        o.layout = s.fields().iter().map(|(k, f)| (*k, f.name().to_owned(), Some(f.is_required()))).collect();
    } else {
        o.layout_kind = "other";
    }
    o.type_id = Some(TypeId::compute::<T>());
}

fn as_enum(sv: &Result<SerializedValue, aldrin_core::SerializeError>) -> Option<(u32, AValue)> {
    match sv.as_ref().ok()?.deserialize_as_value().ok()? {
        AValue::Enum(e) => Some((e.id, e.value)),
        _ => None,
    }
}

/// `values`: one value per variant, in declaration order.
pub fn observe_enum<T>(values: Vec<T>, spec_ids: &[u32]) -> Observed
where
    T: SerializePrimary + DeserializePrimary + Introspectable + Clone + PartialEq,
    for<'a> &'a T: SerializePrimary,
{
    let mut o = Observed::default();
    for (j, v) in values.iter().enumerate() {
        let by_val = SerializedValue::serialize(v.clone());
        let by_ref = SerializedValue::serialize(v);
        let seen = as_enum(&by_val);
        o.wire.push(seen.as_ref().map(|x| x.0));
        o.wire_ref.push(as_enum(&by_ref).map(|x| x.0));
        o.roundtrip.push(by_val.as_ref().ok().and_then(|sv| sv.deserialize::<T>().ok()).as_ref() == Some(v));
        let from_spec = match (seen, spec_ids.get(j)) {
            (Some((_, payload)), Some(&id)) => SerializedValue::serialize(AValue::Enum(Box::new(AEnum::new(id, payload))))
                .ok()
                .and_then(|sv| sv.deserialize::<T>().ok()),
            _ => None,
        };
        o.decodes_spec_ids.push(from_spec.as_ref() == Some(v));
    }
    describe::<T>(&mut o);
    o
}

/// the number a field value carries (fields are recognised on the wire by their value)
fn token(v: &AValue) -> Option<u64> {
    match v {
        AValue::U8(x) => Some(*x as u64),
        AValue::U32(x) => Some(*x as u64),
        AValue::Some(b) => token(b),
        _ => None,
    }
}

fn as_struct(sv: &Result<SerializedValue, aldrin_core::SerializeError>) -> Option<HashMap<u32, AValue>> {
    match sv.as_ref().ok()?.deserialize_as_value().ok()? {
        AValue::Struct(s) => Some(s.0),
        _ => None,
    }
}

/// `value`: field number j (counted from 1) holds the number 10 + j (optional fields: Some(10 + j)).
pub fn observe_struct<T>(value: T, fields: usize, spec_ids: &[u32]) -> Observed
where
    T: SerializePrimary + DeserializePrimary + Introspectable + Clone + PartialEq,
    for<'a> &'a T: SerializePrimary,
{
    let mut o = Observed::default();
    let by_val = SerializedValue::serialize(value.clone());
    let by_ref = SerializedValue::serialize(&value);
    let find = |m: &Option<HashMap<u32, AValue>>, j: usize| -> Option<u32> {
        let m = m.as_ref()?;
        let mut hits = m.iter().filter(|(_, v)| token(v) == Some(10 + j as u64 + 1)).map(|(k, _)| *k);
        let first = hits.next();
        if hits.next().is_some() { None } else { first }
    };
    let seen = as_struct(&by_val);
    let seen_ref = as_struct(&by_ref);
    let rt = by_val.as_ref().ok().and_then(|sv| sv.deserialize::<T>().ok()).as_ref() == Some(&value);
    // a dynamic value with every field under the specification's id
    let mut spec_map = HashMap::new();
    for j in 0..fields {
        if let (Some(id), Some(&want)) = (find(&seen, j), spec_ids.get(j)) {
            spec_map.insert(want, seen.as_ref().unwrap()[&id].clone());
        }
    }
    let from_spec = if spec_map.len() == fields {
        SerializedValue::serialize(AValue::Struct(AStruct(spec_map))).ok().and_then(|sv| sv.deserialize::<T>().ok())
    } else {
        None
    };
    let spec_ok = from_spec.as_ref() == Some(&value);
    for j in 0..fields {
        o.wire.push(find(&seen, j));
        o.wire_ref.push(find(&seen_ref, j));
        o.roundtrip.push(rt);
        o.decodes_spec_ids.push(spec_ok);
    }
    if seen.as_ref().map(HashMap::len) != Some(fields) {
        // more or fewer fields on the wire than written: no field is trusted
        o.wire = vec![None; fields];
    }
    describe::<T>(&mut o);
    o
}

// ------------------------------------------------------------------------------------------------
// hand-built IR of a definition of the specification (SchemaModel!TStruct / TEnum over leaf types)
thread_local! {
    static HAND: RefCell<Option<(ir::LayoutIr, Vec<DynIntrospectable>)>> = const { RefCell::new(None) };
}

struct Hand;

impl Introspectable for Hand {
    fn layout() -> ir::LayoutIr {
        HAND.with(|h| h.borrow().as_ref().expect("driver: no hand-built layout installed").0.clone())
    }

    fn lexical_id() -> LexicalId {
        Self::layout().lexical_id()
    }

    fn add_references(references: &mut References) {
        let refs = HAND.with(|h| h.borrow().as_ref().map(|x| x.1.clone()).unwrap_or_default());
        for r in refs {
            references.add_dyn(r);
        }
    }
}

fn s<'a>(v: &'a Value, k: &str) -> &'a str {
    v[k].as_str().unwrap_or("")
}

fn arr(v: &Value) -> &[Value] {
    v.as_array().map(Vec::as_slice).unwrap_or(&[])
}

fn leaf(t: &Value) -> (LexicalId, DynIntrospectable) {
    match s(t, "k") {
        "u8" => (LexicalId::U8, DynIntrospectable::new::<u8>()),
        "u32" => (LexicalId::U32, DynIntrospectable::new::<u32>()),
        "bool" => (LexicalId::BOOL, DynIntrospectable::new::<bool>()),
        "string" => (LexicalId::STRING, DynIntrospectable::new::<String>()),
        k => panic!("driver: member type {k} is not supported by the derive corpus"),
    }
}

/// the type id of `def` as hand-written IR, item j carrying `ids[j]`
fn hand_type_id(def: &Value, ids: &[u32]) -> TypeId {
    let (schema, name) = (s(def, "schema"), s(def, "name"));
    let mut refs = Vec::new();
    let layout: ir::LayoutIr = match s(def, "k") {
        "struct" => {
            let mut b = ir::StructIr::builder(schema, name);
            for (j, m) in arr(&def["mem"]).iter().enumerate() {
                let (lex, d) = leaf(&m["ty"]);
                refs.push(d);
                b = b.field(ir::FieldIr::builder(ids[j], s(m, "name"), m["req"].as_bool().unwrap_or(false), lex).finish());
            }
            if let Some(f) = arr(&def["fb"]).first() {
                b = b.fallback(ir::StructFallbackIr::builder(f.as_str().unwrap_or("")).finish());
            }
            b.finish().into()
        }
        "enum" => {
            let mut b = ir::EnumIr::builder(schema, name);
            for (j, m) in arr(&def["mem"]).iter().enumerate() {
                let mut v = ir::VariantIr::builder(ids[j], s(m, "name"));
                if let Some(t) = arr(&m["ty"]).first() {
                    let (lex, d) = leaf(t);
                    refs.push(d);
                    v = v.variant_type(lex);
                }
                b = b.variant(v.finish());
            }
            if let Some(f) = arr(&def["fb"]).first() {
                b = b.fallback(ir::EnumFallbackIr::builder(f.as_str().unwrap_or("")).finish());
            }
            b.finish().into()
        }
        k => panic!("driver: definition kind {k} is not supported by the derive corpus"),
    };
    HAND.with(|h| *h.borrow_mut() = Some((layout, refs)));
    TypeId::compute::<Hand>()
}

// ------------------------------------------------------------------------------------------------
fn ids_json(v: &[Option<u32>]) -> Value {
    json!(v.iter().map(|x| x.map(|i| json!(i)).unwrap_or(json!("-"))).collect::<Vec<_>>())
}

fn fail(msg: &str) -> ! {
    println!("{}", json!({"tool_error": msg}));
    eprintln!("{msg}");
    std::process::exit(2)
}

pub fn main(entries: &[Entry]) {
    let args = Args::parse();
    silence_panics();
    if args.cmd != "run" {
        fail("usage: <corpus> run --vectors F [--corrupt N]");
    }
    let mut vectors = read_ndjson(args.req("vectors"));
    let corrupt = args.num("corrupt", 0);
    let table: HashMap<&str, &Entry> = entries.iter().map(|e| (e.id, e)).collect();

    // binding sanity: the expected assignment (and with it the expected description) of the first `corrupt`
    // non-empty types is falsified - every one of them must be noticed
    let mut corrupted: BTreeSet<usize> = BTreeSet::new();
    for (n, v) in vectors.iter_mut().enumerate() {
        if (corrupted.len() as u64) < corrupt && !arr(&v["ids"]).is_empty() {
            let last = arr(&v["ids"]).len() - 1;
            let bumped = v["ids"][last].as_u64().unwrap_or(0) + 1;
            v["ids"][last] = json!(bumped);
            corrupted.insert(n);
        }
    }

    let mut viol = Findings::default();
    let mut drift = Findings::default();
    let (mut items, mut checks, mut discriminating, mut agreeing) = (0u64, 0u64, 0u64, 0u64);
    let mut by_kind: BTreeMap<String, u64> = BTreeMap::new();
    let mut type_ids: Vec<Option<TypeId>> = Vec::new();
    let mut keys: Vec<String> = Vec::new();
    let mut conforming: Vec<bool> = Vec::new();
    let mut samples: Vec<Value> = Vec::new();

    for (n, v) in vectors.iter().enumerate() {
        let id = s(v, "id");
        let Some(entry) = table.get(id) else { fail(&format!("the corpus crate has no type for {id}")) };
        *by_kind.entry(s(v, "kind").to_owned()).or_insert(0) += 1;
        let spec: Vec<u32> = arr(&v["ids"]).iter().map(|x| x.as_u64().unwrap_or(u64::MAX) as u32).collect();
        let mem = arr(&v["def"]["mem"]);
        if mem.len() != spec.len() {
            fail(&format!("{id}: {} members, {} expected ids", mem.len(), spec.len()));
        }
        keys.push(if corrupted.contains(&n) { format!("corrupted-{n}") } else { canonical_string(&v["canon"], &["es"]) });
        discriminating += (v["positional"] == json!(false)) as u64;

        let o = match guarded(|| (entry.observe)(&spec)) {
            Ok(o) => o,
            Err(m) => {
                let why = format!("D1 panic in derived code / TypeId::compute: {}", m.chars().take(160).collect::<String>());
                viol.add(&why, json!({"derive": true, "id": id, "kind": v["kind"], "pat": v["pat"], "ids": v["ids"], "def": v["def"], "canon": v["canon"]}));
                type_ids.push(None);
                conforming.push(false);
                continue;
            }
        };
        items += spec.len() as u64;
        let layout_id = |name: &str| -> Option<u32> {
            let mut hits = o.layout.iter().filter(|(_, n, _)| n == name).map(|(i, _, _)| *i);
            let first = hits.next();
            if hits.next().is_some() { None } else { first }
        };
        let layout_ids: Vec<Option<u32>> = mem.iter().map(|m| layout_id(s(m, "name"))).collect();
        let case = || {
            json!({"derive": true, "id": id, "kind": v["kind"], "pat": v["pat"], "ids": v["ids"], "def": v["def"], "canon": v["canon"],
                   "observed": {"wire_ids": ids_json(&o.wire), "wire_ids_by_ref": ids_json(&o.wire_ref), "layout_ids": ids_json(&layout_ids),
                                "layout": o.layout.iter().map(|(i, n, r)| json!({"id": i, "name": n, "required": r})).collect::<Vec<_>>(),
                                "layout_kind": o.layout_kind, "type_id": o.type_id.map(|t| t.0.to_string())}})
        };

        // (a) against (b): the layout must describe the wire
        let want_kind = if s(&v["def"], "k") == "enum" { "enum" } else { "struct" };
        checks += 1;
        let mut d2 = o.layout_kind != want_kind || o.layout.len() != mem.len();
        for j in 0..spec.len() {
            checks += 1;
            if o.wire[j].is_none() || o.wire[j] != layout_ids[j] {
                d2 = true;
            }
        }
        if d2 {
            viol.add("D2 an item is serialized under one id and introspected under another: the layout behind the type id is not the wire layout", case());
        }

        // (a) against the specification's assignment
        let wire_is_spec = (0..spec.len()).all(|j| o.wire[j] == Some(spec[j]));
        checks += spec.len() as u64;
        if !wire_is_spec && !d2 {
            drift.add("the wire ids of a derived type are not the specification's assignment (layout and wire agree)", case());
        }
        agreeing += (wire_is_spec && !d2) as u64;
        let mut in_classes = wire_is_spec && !d2;

        // conformance beyond the statement
        checks += 3 * spec.len() as u64;
        if o.wire != o.wire_ref {
            drift.add("by-value and by-reference serialization use different ids", case());
        }
        if o.roundtrip.iter().any(|x| !x) {
            drift.add("the derived Deserialize does not give back what the derived Serialize wrote", case());
        }
        if wire_is_spec && o.decodes_spec_ids.iter().any(|x| !x) {
            drift.add("the derived Deserialize does not accept a value carrying the specification's ids", case());
        }

        // (c) against (d)
        checks += 1;
        let wire_complete = o.wire.iter().all(Option::is_some);
        let hand_spec = guarded(|| hand_type_id(&v["def"], &spec)).unwrap_or_else(|m| fail(&format!("{id}: hand-built IR: {m}")));
        let hand_wire = if wire_is_spec || !wire_complete {
            hand_spec
        } else {
            let w: Vec<u32> = o.wire.iter().map(|x| x.unwrap()).collect();
            guarded(|| hand_type_id(&v["def"], &w)).unwrap_or_else(|m| fail(&format!("{id}: hand-built IR: {m}")))
        };
        if wire_complete && o.type_id != Some(hand_wire) {
            let mut c = case();
            c["hand_built_type_id"] = json!(hand_wire.0.to_string());
            viol.add("D3 the type id of a derived type is not the id of hand-built IR with the ids used on the wire", c);
            in_classes = false;
        }
        conforming.push(in_classes);
        type_ids.push(o.type_id);
        if samples.len() < 3 && v["positional"] == json!(false) {
            samples.push(json!({"id": id, "pat": v["pat"], "expected_ids": v["ids"], "wire_ids": ids_json(&o.wire), "layout_ids": ids_json(&layout_ids),
                                "type_id": o.type_id.map(|t| t.0.to_string()), "hand_built_type_id": hand_spec.0.to_string()}));
        }
    }

    // D4: pairwise across the corpus, equal CanonId <=> equal TypeId
    let small = |i: usize| {
        let v = &vectors[i];
        json!({"derive": true, "id": v["id"], "kind": v["kind"], "pat": v["pat"], "ids": v["ids"], "def": v["def"], "canon": v["canon"],
               "type_id": type_ids[i].map(|t| t.0.to_string())})
    };
    let mut by_key: BTreeMap<&str, BTreeMap<TypeId, usize>> = BTreeMap::new();
    let mut by_id: BTreeMap<TypeId, BTreeMap<&str, usize>> = BTreeMap::new();
    for i in 0..vectors.len() {
        if let (Some(t), true) = (type_ids[i], conforming[i] || corrupted.contains(&i)) {
            by_key.entry(&keys[i]).or_default().entry(t).or_insert(i);
            by_id.entry(t).or_default().entry(&keys[i]).or_insert(i);
        }
    }
    for m in by_key.values() {
        checks += 1;
        if m.len() > 1 {
            let idx: Vec<usize> = m.values().copied().collect();
            viol.add("D4 two derived types with the same wire-relevant description have different ids", json!({"case": small(idx[0]), "other": small(idx[1])}));
        }
    }
    for m in by_id.values() {
        checks += 1;
        if m.len() > 1 {
            let idx: Vec<usize> = m.values().copied().collect();
            viol.add("D4 two derived types with different wire-relevant descriptions have the same id", json!({"case": small(idx[0]), "other": small(idx[1])}));
        }
    }

    let distinct_ids: BTreeSet<TypeId> = type_ids.iter().flatten().copied().collect();
    let distinct_keys: BTreeSet<&String> = keys.iter().collect();
    println!(
        "{}",
        json!({"cases": vectors.len(), "by_kind": by_kind, "items": items, "checks": checks, "classes": distinct_keys.len(),
               "distinct_type_ids": distinct_ids.len(), "discriminating": discriminating, "agreeing": agreeing, "corrupted": corrupted.len(),
               "violation_count": viol.count(), "violations_by_why": viol.by_why_json(), "violations": viol.first,
               "drift_count": drift.count(), "drifts_by_why": drift.by_why_json(), "drifts": drift.first, "samples": samples})
    );
}
