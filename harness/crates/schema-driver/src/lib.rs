//! Shared plumbing of the schema drivers: argument parsing, panic capture, summaries.
pub mod derive_rt;

use serde_json::{json, Map, Value};
use std::any::Any;
use std::collections::BTreeMap;
use std::panic::{self, AssertUnwindSafe};

pub struct Args {
    pub cmd: String,
    map: BTreeMap<String, String>,
}

impl Args {
    pub fn parse() -> Self {
        let mut it = std::env::args().skip(1);
        let cmd = it.next().unwrap_or_default();
        let mut map = BTreeMap::new();
        while let Some(k) = it.next() {
            let v = it.next().unwrap_or_default();
            map.insert(k.trim_start_matches("--").to_owned(), v);
        }
        Self { cmd, map }
    }

    pub fn get(&self, k: &str) -> Option<&str> {
        self.map.get(k).map(String::as_str)
    }

    pub fn req(&self, k: &str) -> &str {
        self.get(k).unwrap_or_else(|| {
            eprintln!("missing argument --{k}");
            std::process::exit(2)
        })
    }

    pub fn num(&self, k: &str, default: u64) -> u64 {
        self.get(k).and_then(|v| v.parse().ok()).unwrap_or(default)
    }
}

pub fn silence_panics() {
    panic::set_hook(Box::new(|_| {}));
}

fn panic_message(e: Box<dyn Any + Send>) -> String {
    if let Some(s) = e.downcast_ref::<&str>() {
        (*s).to_owned()
    } else if let Some(s) = e.downcast_ref::<String>() {
        s.clone()
    } else {
        "non-string panic payload".to_owned()
    }
}

/// Runs code of the system under test; a panic is data.
pub fn guarded<T>(f: impl FnOnce() -> T) -> Result<T, String> {
    panic::catch_unwind(AssertUnwindSafe(f)).map_err(panic_message)
}

/// Violations and drifts with exact counts per reason and the first few cases of each.
#[derive(Default)]
pub struct Findings {
    pub by_why: BTreeMap<String, u64>,
    pub first: Vec<Value>,
}

impl Findings {
    pub fn add(&mut self, why: &str, case: Value) {
        let n = self.by_why.entry(why.to_owned()).or_insert(0);
        *n += 1;
        if *n <= 2 && self.first.len() < 40 {
            self.first.push(json!({"why": why, "case": case}));
        }
    }

    pub fn count(&self) -> u64 {
        self.by_why.values().sum()
    }

    pub fn by_why_json(&self) -> Value {
        Value::Object(self.by_why.iter().map(|(k, v)| (k.clone(), json!(v))).collect::<Map<_, _>>())
    }
}

pub fn read_ndjson(path: &str) -> Vec<Value> {
    let text = std::fs::read_to_string(path).unwrap_or_else(|e| {
        eprintln!("cannot read {path}: {e}");
        std::process::exit(2)
    });
    text.lines()
        .filter(|l| !l.trim().is_empty())
        .map(|l| serde_json::from_str(l).unwrap_or_else(|e| {
            eprintln!("bad json in {path}: {e}");
            std::process::exit(2)
        }))
        .collect()
}

/// Canonical string of a JSON value in which every array is a set or has at most one element:
/// object keys sorted (serde_json's map is ordered), arrays sorted by the canonical string of their elements.
pub fn canonical_set_string(v: &Value) -> String {
    canonical_string(v, &[])
}

/// Like `canonical_set_string`, except that the arrays found under one of the object keys `seq_keys` are
/// sequences: the order of their elements is kept.
pub fn canonical_string(v: &Value, seq_keys: &[&str]) -> String {
    fn go(v: &Value, seq_keys: &[&str], is_seq: bool) -> String {
        match v {
            Value::Array(a) => {
                let mut items: Vec<String> = a.iter().map(|x| go(x, seq_keys, false)).collect();
                if !is_seq {
                    items.sort();
                }
                format!("[{}]", items.join(","))
            }
            Value::Object(o) => {
                let mut keys: Vec<&String> = o.keys().collect();
                keys.sort();
                let items: Vec<String> = keys
                    .into_iter()
                    .map(|k| format!("{}:{}", Value::String(k.clone()), go(&o[k], seq_keys, seq_keys.contains(&k.as_str()))))
                    .collect();
                format!("{{{}}}", items.join(","))
            }
            other => other.to_string(),
        }
    }
    go(v, seq_keys, false)
}
