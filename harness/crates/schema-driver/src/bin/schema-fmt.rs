//! C18 driver: the real `Parser` and `Formatter` of /repo/parser on the (text, expected AST) pairs
//! enumerated by TLC from SchemaModel_MC18.tla, and on the repository's own *.aldrin files.
//!
//! Per model case (text = concatenation of the rendered tokens, ast = the model's normal form):
//!   R1 DRIFT      the real grammar rejects the model's text (model / grammar disagreement; case skipped)
//!   R2 VIOLATION  a panic in Parser::parse / Formatter::new / Formatter::to_string
//!   R3 VIOLATION  t1 = format(text) has a syntax error
//!   R4 VIOLATION  AST(parse(t1)) != AST(parse(text))                       (real vs real)
//!   R5 VIOLATION  AST(parse(t1)) != the model's AST, comment/doc texts compared trimmed
//!      DRIFT      ... equal trimmed but not exactly (inner-text whitespace convention)
//!      DRIFT      AST(parse(text)) != the model's AST although R5 holds
//!   R6 VIOLATION  multiset of errors and warnings of parse(t1) != that of parse(text), spans aside
//!   R7 VIOLATION  format(t1) != t1
//! Repository files: R2, R3, R4, R6, R7 (files with syntax errors are skipped and counted).
//!
//! usage: schema-fmt run --vectors F [--repo-files LIST] [--corrupt N]
//!        schema-fmt replay --file replay.json
use aldrin_parser::ast::{
    ArrayLenValue, Attribute, Comment, ConstValue, Definition, DocString, EnumFallback, EnumVariant, EventFallback,
    FunctionFallback, FunctionPart, NamedRef, NamedRefKind, ServiceItem, StructFallback, StructField, TypeName,
    TypeNameKind, TypeNameOrInline,
};
use aldrin_parser::{Formatter, MemoryResolver, Parser, Schema};
use schema_driver::{guarded, read_ndjson, silence_panics, Args, Findings};
use serde_json::{json, Value};
use std::collections::{BTreeMap, BTreeSet, HashMap};
use std::path::Path;
use std::sync::{Arc, Mutex};
use std::time::{Duration, Instant};

// ------------------------------------------------------------------------------------------------
// the real AST as JSON in the shape of SchemaModel!Ast
fn coms(c: &[Comment]) -> Value {
    Value::Array(c.iter().map(|c| json!(c.value_inner())).collect())
}
fn docs(d: &[DocString]) -> Value {
    Value::Array(d.iter().map(|d| json!(d.value_inner())).collect())
}
fn attrs(a: &[Attribute]) -> Value {
    Value::Array(
        a.iter()
            .map(|a| json!({"name": a.name().value(), "opts": a.options().iter().map(|o| o.value()).collect::<Vec<_>>()}))
            .collect(),
    )
}
fn nref(r: &NamedRef) -> Value {
    match r.kind() {
        NamedRefKind::Intern(i) => json!({"k": "ref", "name": i.value()}),
        NamedRefKind::Extern(s, i) => json!({"k": "ext", "schema": s.value(), "name": i.value()}),
    }
}
fn ty(t: &TypeName) -> Value {
    use TypeNameKind as K;
    let leaf = |k: &str| json!({ "k": k });
    let un = |k: &str, a: &TypeName| json!({"k": k, "a": ty(a)});
    match t.kind() {
        K::Bool => leaf("bool"),
        K::U8 => leaf("u8"),
        K::I8 => leaf("i8"),
        K::U16 => leaf("u16"),
        K::I16 => leaf("i16"),
        K::U32 => leaf("u32"),
        K::I32 => leaf("i32"),
        K::U64 => leaf("u64"),
        K::I64 => leaf("i64"),
        K::F32 => leaf("f32"),
        K::F64 => leaf("f64"),
        K::String => leaf("string"),
        K::Uuid => leaf("uuid"),
        K::ObjectId => leaf("object_id"),
        K::ServiceId => leaf("service_id"),
        K::Value => leaf("value"),
        K::Bytes => leaf("bytes"),
        K::Lifetime => leaf("lifetime"),
        K::Unit => leaf("unit"),
        K::Option(a) => un("option", a),
        K::Box(a) => un("box", a),
        K::Vec(a) => un("vec", a),
        K::Set(a) => un("set", a),
        K::Sender(a) => un("sender", a),
        K::Receiver(a) => un("receiver", a),
        K::Map(a, b) => json!({"k": "map", "a": ty(a), "b": ty(b)}),
        K::Result(a, b) => json!({"k": "result", "a": ty(a), "b": ty(b)}),
        K::Array(a, len) => {
            let len = match len.value() {
                ArrayLenValue::Literal(l) => json!({"lit": l.value()}),
                ArrayLenValue::Ref(r) => json!({"ref": nref(r)}),
            };
            json!({"k": "array", "a": ty(a), "len": len})
        }
        K::Ref(r) => nref(r),
    }
}
fn field(f: &StructField) -> Value {
    json!({"name": f.name().value(), "id": f.id().value(), "req": f.required(), "ty": ty(f.field_type()),
           "comment": coms(f.comment()), "doc": docs(f.doc())})
}
fn variant(v: &EnumVariant) -> Value {
    json!({"name": v.name().value(), "id": v.id().value(), "ty": v.variant_type().map(ty).into_iter().collect::<Vec<_>>(),
           "comment": coms(v.comment()), "doc": docs(v.doc())})
}
fn fb(name: &str, c: &[Comment], d: &[DocString]) -> Value {
    json!([{"name": name, "comment": coms(c), "doc": docs(d)}])
}
fn sfb(f: Option<&StructFallback>) -> Value {
    f.map(|f| fb(f.name().value(), f.comment(), f.doc())).unwrap_or(json!([]))
}
fn efb(f: Option<&EnumFallback>) -> Value {
    f.map(|f| fb(f.name().value(), f.comment(), f.doc())).unwrap_or(json!([]))
}
fn fnfb(f: Option<&FunctionFallback>) -> Value {
    f.map(|f| fb(f.name().value(), f.comment(), f.doc())).unwrap_or(json!([]))
}
fn evfb(f: Option<&EventFallback>) -> Value {
    f.map(|f| fb(f.name().value(), f.comment(), f.doc())).unwrap_or(json!([]))
}
fn toi(t: &TypeNameOrInline) -> Value {
    match t {
        TypeNameOrInline::TypeName(t) => json!({"k": "type", "ty": ty(t)}),
        TypeNameOrInline::Struct(s) => json!({"k": "istruct", "doc": docs(s.doc()), "attrs": attrs(s.attributes()),
            "mem": s.fields().iter().map(field).collect::<Vec<_>>(), "fb": sfb(s.fallback())}),
        TypeNameOrInline::Enum(e) => json!({"k": "ienum", "doc": docs(e.doc()), "attrs": attrs(e.attributes()),
            "mem": e.variants().iter().map(variant).collect::<Vec<_>>(), "fb": efb(e.fallback())}),
    }
}
fn part(p: Option<&FunctionPart>) -> Value {
    match p {
        Some(p) => json!([{"comment": coms(p.comment()), "ty": toi(p.part_type())}]),
        None => json!([]),
    }
}
fn def(d: &Definition) -> Value {
    match d {
        Definition::Struct(s) => json!({"k": "struct", "name": s.name().value(), "comment": coms(s.comment()), "doc": docs(s.doc()),
            "attrs": attrs(s.attributes()), "mem": s.fields().iter().map(field).collect::<Vec<_>>(), "fb": sfb(s.fallback())}),
        Definition::Enum(e) => json!({"k": "enum", "name": e.name().value(), "comment": coms(e.comment()), "doc": docs(e.doc()),
            "attrs": attrs(e.attributes()), "mem": e.variants().iter().map(variant).collect::<Vec<_>>(), "fb": efb(e.fallback())}),
        Definition::Newtype(n) => json!({"k": "newtype", "name": n.name().value(), "comment": coms(n.comment()), "doc": docs(n.doc()),
            "attrs": attrs(n.attributes()), "ty": ty(n.target_type())}),
        Definition::Const(c) => {
            let (vt, v) = match c.value() {
                ConstValue::U8(v) => ("u8", v.value()),
                ConstValue::I8(v) => ("i8", v.value()),
                ConstValue::U16(v) => ("u16", v.value()),
                ConstValue::I16(v) => ("i16", v.value()),
                ConstValue::U32(v) => ("u32", v.value()),
                ConstValue::I32(v) => ("i32", v.value()),
                ConstValue::U64(v) => ("u64", v.value()),
                ConstValue::I64(v) => ("i64", v.value()),
                ConstValue::String(v) => ("string", v.value()),
                ConstValue::Uuid(v) => ("uuid", v.value()),
            };
            json!({"k": "const", "name": c.name().value(), "comment": coms(c.comment()), "doc": docs(c.doc()), "vt": vt, "v": v})
        }
        Definition::Service(s) => {
            let items: Vec<Value> = s
                .items()
                .iter()
                .map(|it| match it {
                    ServiceItem::Function(f) => json!({"k": "fn", "name": f.name().value(), "id": f.id().value(),
                        "comment": coms(f.comment()), "doc": docs(f.doc()), "args": part(f.args()), "ok": part(f.ok()), "err": part(f.err())}),
                    ServiceItem::Event(e) => json!({"k": "event", "name": e.name().value(), "id": e.id().value(),
                        "comment": coms(e.comment()), "doc": docs(e.doc()),
                        "ty": e.event_type().map(toi).into_iter().collect::<Vec<_>>()}),
                })
                .collect();
            json!({"k": "service", "name": s.name().value(), "comment": coms(s.comment()), "doc": docs(s.doc()),
                "uuid": s.uuid().value(), "ver": s.version().value(), "ucomment": coms(s.uuid_comment()),
                "vcomment": coms(s.version_comment()), "items": items, "fnfb": fnfb(s.function_fallback()), "evfb": evfb(s.event_fallback())})
        }
    }
}
/// imports as a sorted multiset (stable sort by name, as the statement's "imports as a sorted set")
fn schema_json(s: &Schema) -> Value {
    let mut imports: Vec<_> = s.imports().iter().collect();
    imports.sort_by_key(|i| i.schema_name().value());
    json!({"comment": coms(s.comment()), "doc": docs(s.doc()),
        "imports": imports.iter().map(|i| json!({"name": i.schema_name().value(), "comment": coms(i.comment())})).collect::<Vec<_>>(),
        "defs": s.definitions().iter().map(def).collect::<Vec<_>>()})
}

/// comment and doc texts trimmed: the loose comparison of R5
fn loosen(v: &Value) -> Value {
    match v {
        Value::Object(o) => Value::Object(
            o.iter()
                .map(|(k, x)| {
                    let y = if k == "comment" || k == "doc" || k == "ucomment" || k == "vcomment" {
                        match x {
                            Value::Array(a) => Value::Array(a.iter().map(|s| json!(s.as_str().unwrap_or("").trim())).collect()),
                            other => other.clone(),
                        }
                    } else {
                        loosen(x)
                    };
                    (k.clone(), y)
                })
                .collect(),
        ),
        Value::Array(a) => Value::Array(a.iter().map(loosen).collect()),
        other => other.clone(),
    }
}

/// first path at which two JSON values differ
fn first_diff(a: &Value, b: &Value, path: &str) -> Option<String> {
    match (a, b) {
        (Value::Object(x), Value::Object(y)) => {
            let keys: BTreeSet<&String> = x.keys().chain(y.keys()).collect();
            for k in keys {
                match (x.get(k), y.get(k)) {
                    (Some(p), Some(q)) => {
                        if let Some(d) = first_diff(p, q, &format!("{path}.{k}")) {
                            return Some(d);
                        }
                    }
                    _ => return Some(format!("{path}.{k}: present on one side only")),
                }
            }
            None
        }
        (Value::Array(x), Value::Array(y)) => {
            if x.len() != y.len() {
                return Some(format!("{path}: {} vs {} elements", x.len(), y.len()));
            }
            x.iter().zip(y).enumerate().find_map(|(i, (p, q))| first_diff(p, q, &format!("{path}[{i}]")))
        }
        _ if a == b => None,
        _ => Some(format!("{path}: {a} vs {b}")),
    }
}

// ------------------------------------------------------------------------------------------------
/// `Span { start: 1, end: 2 }` -> `Span`: diagnostics are compared positions aside
fn strip_spans(s: &str) -> String {
    let mut out = String::with_capacity(s.len());
    let mut rest = s;
    let pat = "Span { start: ";
    while let Some(i) = rest.find(pat) {
        out.push_str(&rest[..i]);
        out.push_str("Span");
        let after = &rest[i + pat.len()..];
        match after.find('}') {
            Some(j) => rest = &after[j + 1..],
            None => {
                rest = "";
            }
        }
    }
    out.push_str(rest);
    out
}

/// `Comment { span: Span, value: "// raw\n" }` -> `Comment`, same for DocString: the raw spelling of a comment line
/// inside an AST node quoted by a diagnostic is layout, not content (the content is compared through the AST)
fn strip_raw_lines(s: &str) -> String {
    let mut out = String::with_capacity(s.len());
    let mut rest = s;
    loop {
        let next = ["Comment { span: Span, value: \"", "DocString { span: Span, value: \""]
            .iter()
            .filter_map(|pat| rest.find(pat).map(|i| (i, *pat)))
            .min();
        let Some((i, pat)) = next else { break };
        out.push_str(&rest[..i]);
        out.push_str(pat.split(' ').next().unwrap_or(""));
        let mut after = rest[i + pat.len()..].char_indices();
        let mut end = rest.len();
        while let Some((j, c)) = after.next() {
            if c == '\\' {
                after.next();
            } else if c == '"' {
                end = i + pat.len() + j + 1;
                break;
            }
        }
        rest = rest[end..].strip_prefix(" }").unwrap_or(&rest[end..]);
    }
    out.push_str(rest);
    out
}

fn norm_diag(s: &str) -> String {
    strip_raw_lines(&strip_spans(s))
}

fn diagnostics(p: &Parser) -> Vec<String> {
    let mut d: Vec<String> = Vec::new();
    d.extend(p.errors().iter().map(|e| format!("E {}", norm_diag(&format!("{e:?}")))));
    d.extend(p.warnings().iter().map(|w| format!("W {}", norm_diag(&format!("{w:?}")))));
    d.extend(p.other_warnings().iter().map(|w| format!("O {}", norm_diag(&format!("{w:?}")))));
    d.sort();
    d
}

fn diag_kinds(d: &[String]) -> Vec<String> {
    d.iter().map(|s| s.split(['(', '{']).nth(1).unwrap_or("").split_whitespace().last().unwrap_or("").to_owned()).collect()
}

fn parse(name: &str, text: &str, deps: &[(String, String)]) -> Parser {
    let mut r = MemoryResolver::new(name, Ok(text.to_owned()));
    for (n, t) in deps {
        r.add(n.clone(), Ok(t.clone()));
    }
    Parser::parse(r)
}

struct Outcome {
    rejected: bool,
    formatted: Option<String>,
    changed: bool,
    ndiag: usize,
    diag_kinds: Vec<String>,
}

/// The oracle.  `model` is the expected AST (None for repository files).
fn judge(id: &str, name: &str, text: &str, deps: &[(String, String)], model: Option<&Value>, viol: &mut Findings, drift: &mut Findings) -> Outcome {
    let case = || json!({"id": id, "name": name, "text": text, "deps": deps.iter().map(|(n, t)| json!({"name": n, "text": t})).collect::<Vec<_>>(),
                         "ast": model.cloned().unwrap_or(Value::Null)});
    let mut out = Outcome { rejected: false, formatted: None, changed: false, ndiag: 0, diag_kinds: vec![] };

    // parse(text), format
    let step1 = guarded(|| {
        let p = parse(name, text, deps);
        match Formatter::new(&p) {
            Err(errs) => Err(format!("{:?}", errs.first().map(|e| strip_spans(&format!("{e:?}"))))),
            Ok(f) => {
                let t1 = f.to_string();
                Ok((schema_json(p.main_schema()), diagnostics(&p), t1))
            }
        }
    });
    let (ast0, diag0, t1) = match step1 {
        Err(msg) => {
            viol.add(&format!("R2 panic while parsing / formatting the input: {}", truncate(&msg, 160)), case());
            return out;
        }
        Ok(Err(e)) => {
            out.rejected = true;
            if model.is_some() {
                drift.add("R1 the real grammar rejects the model's text", json!({"id": id, "text": text, "error": truncate(&e, 300)}));
            }
            return out;
        }
        Ok(Ok(x)) => x,
    };
    out.changed = t1 != text;
    out.ndiag = diag0.len();
    out.diag_kinds = diag_kinds(&diag0);
    out.formatted = Some(t1.clone());

    // parse(t1), format again
    let step2 = guarded(|| {
        let p = parse(name, &t1, deps);
        match Formatter::new(&p) {
            Err(errs) => Err(format!("{:?}", errs.first().map(|e| format!("{e:?}")))),
            Ok(f) => {
                let t2 = f.to_string();
                Ok((schema_json(p.main_schema()), diagnostics(&p), t2))
            }
        }
    });
    let with_t1 = |mut c: Value| {
        c["formatted"] = json!(t1);
        c
    };
    let (ast1, diag1, t2) = match step2 {
        Err(msg) => {
            viol.add(&format!("R2 panic while parsing / formatting the formatted text: {}", truncate(&msg, 160)), with_t1(case()));
            return out;
        }
        Ok(Err(e)) => {
            viol.add("R3 the formatted text has a syntax error", with_t1(json!({"id": id, "name": name, "text": text, "deps": case()["deps"], "error": truncate(&e, 400)})));
            return out;
        }
        Ok(Ok(x)) => x,
    };

    if ast1 != ast0 {
        let d = first_diff(&ast0, &ast1, "schema").unwrap_or_default();
        viol.add(&format!("R4 the formatted text parses to a different schema ({})", classify_path(&d)), with_t1(json!({"id": id, "name": name, "text": text, "deps": case()["deps"], "diff": d})));
    }
    if let Some(model) = model {
        if &ast1 != model {
            if loosen(&ast1) != loosen(model) {
                let d = first_diff(model, &ast1, "schema").unwrap_or_default();
                viol.add(&format!("R5 the formatted text does not denote the schema of the input as the specification defines it ({})", classify_path(&d)),
                    with_t1(json!({"id": id, "name": name, "text": text, "deps": case()["deps"], "ast": model, "diff": d})));
            } else {
                let d = first_diff(model, &ast1, "schema").unwrap_or_default();
                drift.add("R5 comment / doc inner text differs from the model in whitespace only", json!({"id": id, "diff": d}));
            }
        } else if &ast0 != model {
            let d = first_diff(model, &ast0, "schema").unwrap_or_default();
            drift.add("R5 the input parses to an AST other than the model's although the formatted text agrees", json!({"id": id, "diff": d}));
        }
    }
    // Diagnostics that span several schemas are collected from HashMaps inside the parser: their order of
    // mention is not repeatable between two parses of the SAME text.  Only a difference that persists across
    // repeated parses of both texts is attributed to formatting.
    let unstable = diag1 != diag0 && {
        let again = |t: &str| -> Vec<Vec<String>> { (0..4).filter_map(|_| guarded(|| diagnostics(&parse(name, t, deps))).ok()).collect() };
        let (a, b) = (again(text), again(&t1));
        a.iter().any(|x| b.contains(x) || *x == diag1) || b.iter().any(|y| *y == diag0)
    };
    if diag1 != diag0 && !unstable {
        let only0: Vec<&String> = diag0.iter().filter(|d| !diag1.contains(d)).collect();
        let only1: Vec<&String> = diag1.iter().filter(|d| !diag0.contains(d)).collect();
        viol.add("R6 the formatted text reports a different multiset of errors and warnings",
            with_t1(json!({"id": id, "name": name, "text": text, "deps": case()["deps"], "only_input": only0, "only_formatted": only1})));
    }
    if t2 != t1 {
        viol.add("R7 formatting the formatted text changes it", with_t1(json!({"id": id, "name": name, "text": text, "deps": case()["deps"], "second": t2})));
    }
    out
}

fn truncate(s: &str, n: usize) -> String {
    s.chars().take(n).collect()
}

/// `schema.defs[3].mem[1].comment[0]: ..` -> `defs.mem.comment`: the reason names the aspect, not the case
fn classify_path(d: &str) -> String {
    let p = d.split(':').next().unwrap_or("");
    let mut out = String::new();
    let mut skip = false;
    for ch in p.chars() {
        match ch {
            '[' => skip = true,
            ']' => skip = false,
            c if !skip => out.push(c),
            _ => {}
        }
    }
    out.trim_start_matches("schema.").to_owned()
}

// ------------------------------------------------------------------------------------------------
struct State {
    current: String,
    since: Instant,
    done: bool,
    summary: Value,
}

fn deps_of(v: &Value) -> Vec<(String, String)> {
    v["deps"]
        .as_array()
        .map(|a| a.iter().map(|d| (d["name"].as_str().unwrap_or("").to_owned(), d["text"].as_str().unwrap_or("").to_owned())).collect())
        .unwrap_or_default()
}

fn text_of(v: &Value) -> String {
    match &v["text"] {
        Value::String(s) => s.clone(),
        Value::Array(a) => a.iter().map(|s| s.as_str().unwrap_or("")).collect(),
        _ => String::new(),
    }
}

fn run(vectors: Vec<Value>, repo_files: Vec<String>, corrupt: u64, state: Arc<Mutex<State>>) {
    let mut viol = Findings::default();
    let mut drift = Findings::default();
    let mut by_kind: BTreeMap<String, u64> = BTreeMap::new();
    let mut nontrivial: BTreeSet<String> = BTreeSet::new();
    let mut formatted_set: BTreeSet<String> = BTreeSet::new();
    let mut diag_kinds_seen: BTreeSet<String> = BTreeSet::new();
    let mut samples: Vec<Value> = Vec::new();
    let (mut rejected, mut cases, mut with_diags) = (0u64, 0u64, 0u64);

    // expected ASTs that other cases refer to
    let mut asts: HashMap<String, Value> = HashMap::new();
    for v in &vectors {
        if let (Some(id), Some(ast)) = (v["id"].as_str(), v.get("ast")) {
            if !ast.is_null() {
                asts.insert(id.to_owned(), ast.clone());
            }
        }
    }
    for (n, v) in vectors.iter().enumerate() {
        let id = v["id"].as_str().unwrap_or("?").to_owned();
        {
            let mut s = state.lock().unwrap();
            s.current = id.clone();
            s.since = Instant::now();
        }
        let name = v["name"].as_str().unwrap_or("schema");
        let text = text_of(v);
        let deps = deps_of(v);
        let mut model = match v.get("ast") {
            Some(a) if !a.is_null() => Some(a.clone()),
            _ => v["astof"].as_str().and_then(|r| asts.get(r).cloned()),
        };
        // binding sanity: corrupt the expected AST of the first N cases (one comment / name changed)
        if (n as u64) < corrupt {
            if let Some(m) = model.as_mut() {
                corrupt_ast(m);
            }
        }
        let o = judge(&id, name, &text, &deps, model.as_ref(), &mut viol, &mut drift);
        cases += 1;
        *by_kind.entry(v["kind"].as_str().unwrap_or("?").to_owned()).or_insert(0) += 1;
        if o.rejected {
            rejected += 1;
        }
        if o.changed {
            nontrivial.insert(text.clone());
        }
        if o.ndiag > 0 {
            with_diags += 1;
        }
        diag_kinds_seen.extend(o.diag_kinds);
        if let Some(t1) = o.formatted {
            if samples.len() < 3 && o.changed && (n % 997 == 3 || samples.is_empty()) {
                samples.push(json!({"id": id, "text": truncate(&text, 400), "formatted": truncate(&t1, 400)}));
            }
            formatted_set.insert(t1);
        }
    }

    // repository files: the metamorphic part
    let (mut repo_ok, mut repo_skipped) = (0u64, 0u64);
    for path in &repo_files {
        {
            let mut s = state.lock().unwrap();
            s.current = path.clone();
            s.since = Instant::now();
        }
        let Ok(text) = std::fs::read_to_string(path) else { continue };
        let p = Path::new(path);
        let name = p.file_stem().and_then(|s| s.to_str()).unwrap_or("schema").to_owned();
        let mut deps = Vec::new();
        if let Some(dir) = p.parent() {
            if let Ok(rd) = std::fs::read_dir(dir) {
                for e in rd.flatten() {
                    let q = e.path();
                    if q.extension().and_then(|x| x.to_str()) == Some("aldrin") && q != p {
                        if let (Some(stem), Ok(t)) = (q.file_stem().and_then(|s| s.to_str()), std::fs::read_to_string(&q)) {
                            deps.push((stem.to_owned(), t));
                        }
                    }
                }
            }
        }
        deps.sort();
        let o = judge(path, &name, &text, &deps, None, &mut viol, &mut drift);
        if o.rejected {
            repo_skipped += 1;
        } else {
            repo_ok += 1;
            if o.changed {
                nontrivial.insert(text.clone());
            }
            diag_kinds_seen.extend(o.diag_kinds);
        }
    }

    let summary = json!({
        "cases": cases, "by_kind": by_kind, "model_rejected": rejected, "cases_with_diagnostics": with_diags,
        "diagnostic_kinds": diag_kinds_seen, "repo_files": repo_ok, "repo_skipped_syntax_errors": repo_skipped,
        "nontrivial": nontrivial.len(), "distinct_formatted": formatted_set.len(),
        "violation_count": viol.count(), "violations_by_why": viol.by_why_json(), "violations": viol.first,
        "drift_count": drift.count(), "drifts_by_why": drift.by_why_json(), "drifts": drift.first,
        "samples": samples,
    });
    let mut s = state.lock().unwrap();
    s.summary = summary;
    s.done = true;
}

fn corrupt_ast(m: &mut Value) {
    // change the first definition's name, or the first schema comment, or add a definition
    if let Some(d) = m["defs"].as_array_mut().and_then(|a| a.first_mut()) {
        d["name"] = json!("CorruptedName");
    } else if let Some(c) = m["doc"].as_array_mut() {
        c.push(json!("corrupted"));
    }
}

fn main() {
    let args = Args::parse();
    silence_panics();
    let (vectors, repo_files, corrupt) = match args.cmd.as_str() {
        "run" => {
            let vectors = args.get("vectors").map(read_ndjson).unwrap_or_default();
            let repo_files = args
                .get("repo-files")
                .map(|f| std::fs::read_to_string(f).unwrap_or_default().lines().filter(|l| !l.is_empty()).map(str::to_owned).collect())
                .unwrap_or_default();
            (vectors, repo_files, args.num("corrupt", 0))
        }
        "replay" => {
            let data: Value = serde_json::from_str(&std::fs::read_to_string(args.req("file")).expect("replay file")).expect("json");
            let case = data["case"].clone();
            if let Some(path) = case["id"].as_str().filter(|p| p.starts_with('/') && Path::new(p).exists() && case["ast"].is_null()) {
                (vec![], vec![path.to_owned()], 0)
            } else {
                (vec![case], vec![], 0)
            }
        }
        _ => {
            eprintln!("usage: schema-fmt run --vectors F [--repo-files LIST] | replay --file F");
            std::process::exit(2);
        }
    };

    let state = Arc::new(Mutex::new(State { current: String::new(), since: Instant::now(), done: false, summary: Value::Null }));
    let st2 = state.clone();
    let worker = std::thread::Builder::new().stack_size(512 << 20).spawn(move || run(vectors, repo_files, corrupt, st2)).expect("thread");
    loop {
        std::thread::sleep(Duration::from_millis(50));
        let s = state.lock().unwrap();
        if s.done {
            println!("{}", s.summary);
            break;
        }
        if s.since.elapsed() > Duration::from_secs(60) {
            // a hang of the code under test is data
            println!("{}", json!({"cases": 0, "violation_count": 1, "hang": s.current,
                "violations_by_why": {"R2 hang (no progress for 60 s) in parser / formatter": 1},
                "violations": [{"why": "R2 hang (no progress for 60 s) in parser / formatter", "case": {"id": s.current}}],
                "drift_count": 0, "drifts_by_why": {}, "drifts": [], "nontrivial": 0, "samples": []}));
            std::process::exit(0);
        }
        if worker.is_finished() && !s.done {
            drop(s);
            std::thread::sleep(Duration::from_millis(100));
            if !state.lock().unwrap().done {
                eprintln!("worker died");
                std::process::exit(2);
            }
        }
    }
}
