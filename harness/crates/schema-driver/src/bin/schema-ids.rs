//! C20 driver: real introspection type ids of /repo/core for the presentations of type universes that TLC
//! enumerates from SchemaModel_MC20.tla, with the model's CanonId as oracle.
//!
//! A presentation P (definitions in declaration order, members in insertion order, `rord` the order in
//! which add_references hands out references, `docs`, `impl`) is turned into `ir::LayoutIr` values through
//! the public builders.  `DynIntrospectable` holds plain fn pointers, so dynamic layouts are served by a
//! table of const-generic slot types `Slot<N>: Introspectable` that look their layout and references up in a
//! thread-local registry.  With impl = "real", leaves and unary / map / array generics are the real impls of
//! aldrin-core (`Option<Slot<N>>`, `Vec<..>`, `HashMap<String, ..>`, `u8`, `String`, ...) instead of hand-built IR.
//!
//! Generic custom types: a tuple expression `{k: "tuple", es: [..]}` (arity 1 ..= 4) is, with impl = "real", the
//! REAL tuple impl of aldrin-core (core/src/impls/tuple.rs) over element slots - `(Elem<T, 0>, Elem<T, 1>)` for the
//! T-th tuple of the universe, `Elem<T, P>` standing for the node that is element P of that tuple - and otherwise a
//! slot with the hand-built layout struct std::TupleN { required field<i> @ i } whose LEXICAL ID is generic
//! (`LexicalId::custom_generic("std", "TupleN", [element ids])`), i.e. not the one its layout alone would give.
//! `es` is the only JSON array of the vectors that is a sequence; every other array is a set or an option.
//!
//! Per case:
//!   I1 VIOLATION  panic in TypeId::compute_from_dyn / Introspection::from_dyn / serialize / deserialize
//!   I2 VIOLATION  computing the id twice gives different ids
//!   I3 VIOLATION  Introspection -> serialize -> deserialize is not an equal record / fails
//!   I4 VIOLATION  a type id mentioned in the layout is not among the record's references, or is not the id
//!                 of the referenced type computed on its own
//!   I5 VIOLATION  predicted-equal presentation (permutation, docs, impl, edit of an unrelated definition)
//!                 has a different id than its base
//!   I6 VIOLATION  predicted-different presentation (single semantic edit of a listed aspect) has the same id
//!      DRIFT      ... of an aspect the statement does not list (service uuid / version)
//!   I7 VIOLATION  pairwise across the corpus: equal CanonId <=> equal TypeId (anything I5/I6 did not name)
//!   DRIFT         a pinned id of core/src/introspection/test is not re-derived
//!
//! usage: schema-ids run --vectors F [--pinned F] [--corrupt N]   |   schema-ids replay --file F
use aldrin_core::introspection::{ir, BuiltInType, DynIntrospectable, Introspectable, Introspection, Layout, LexicalId, References};
use aldrin_core::{Bytes, ObjectId, SerializedValue, ServiceId, ServiceUuid, TypeId, Value as AValue};
use schema_driver::{canonical_string, guarded, read_ndjson, silence_panics, Args, Findings};
use serde_json::{json, Value};
use std::cell::RefCell;
use std::collections::{BTreeMap, BTreeSet, HashMap, HashSet};
use uuid::Uuid;

#[derive(Clone)]
struct Node {
    layout: ir::LayoutIr,
    /// the lexical id of the TYPE where it is not the one of its layout (generic custom types)
    lex: Option<LexicalId>,
    refs: Vec<DynIntrospectable>,
}

thread_local! {
    static REG: RefCell<Vec<Node>> = const { RefCell::new(Vec::new()) };
    /// tuple number -> the nodes of its elements
    static ELEMS: RefCell<Vec<[usize; MAX_ARITY]>> = const { RefCell::new(Vec::new()) };
}

fn node_lexical_id(n: usize) -> LexicalId {
    REG.with(|r| {
        let r = r.borrow();
        r[n].lex.unwrap_or_else(|| r[n].layout.lexical_id())
    })
}

fn node_add_references(n: usize, references: &mut References) {
    let refs = REG.with(|r| r.borrow()[n].refs.clone());
    for d in refs {
        references.add_dyn(d);
    }
}

struct Slot<const N: usize>;

impl<const N: usize> Introspectable for Slot<N> {
    fn layout() -> ir::LayoutIr {
        REG.with(|r| r.borrow()[N].layout.clone())
    }

    fn lexical_id() -> LexicalId {
        node_lexical_id(N)
    }

    fn add_references(references: &mut References) {
        node_add_references(N, references);
    }
}

/// element P of tuple number T: whatever node the universe put there
struct Elem<const T: usize, const P: usize>;

impl<const T: usize, const P: usize> Elem<T, P> {
    fn node() -> usize {
        ELEMS.with(|e| e.borrow()[T][P])
    }
}

impl<const T: usize, const P: usize> Introspectable for Elem<T, P> {
    fn layout() -> ir::LayoutIr {
        REG.with(|r| r.borrow()[Self::node()].layout.clone())
    }

    fn lexical_id() -> LexicalId {
        node_lexical_id(Self::node())
    }

    fn add_references(references: &mut References) {
        node_add_references(Self::node(), references);
    }
}

/// `fn name(i) -> DynIntrospectable` for the type `$ty` in which `$n` stands for the slot number
macro_rules! table {
    ($name:ident, $n:ident, $ty:ty; $($k:literal)*) => {
        fn $name(i: usize) -> DynIntrospectable {
            match i {
                $( $k => { const $n: usize = $k; DynIntrospectable::new::<$ty>() } )*
                _ => panic!("slot table too small"),
            }
        }
    };
}
macro_rules! with_slots {
    ($($args:tt)*) => { table!($($args)*; 0 1 2 3 4 5 6 7 8 9 10 11 12 13 14 15 16 17 18 19 20 21 22 23 24 25 26 27 28 29 30 31 32 33 34 35 36 37 38 39 40 41 42 43 44 45 46 47 48 49 50 51 52 53 54 55 56 57 58 59 60 61 62 63 64 65 66 67 68 69 70 71 72 73 74 75 76 77 78 79 80 81 82 83 84 85 86 87 88 89 90 91 92 93 94 95); };
}
const SLOTS: usize = 96;
with_slots!(slot, N, Slot<N>);
with_slots!(real_option, N, Option<Slot<N>>);
with_slots!(real_box, N, Box<Slot<N>>);
with_slots!(real_vec, N, Vec<Slot<N>>);
with_slots!(real_set, N, HashSet<Slot<N>>);
with_slots!(real_arr2, N, [Slot<N>; 2]);
with_slots!(real_arr3, N, [Slot<N>; 3]);
with_slots!(real_arr4, N, [Slot<N>; 4]);
with_slots!(real_map_string, N, HashMap<String, Slot<N>>);
with_slots!(real_map_u8, N, HashMap<u8, Slot<N>>);
with_slots!(real_map_u32, N, BTreeMap<u32, Slot<N>>);

macro_rules! with_tuples {
    ($($args:tt)*) => { table!($($args)*; 0 1 2 3 4 5 6 7 8 9 10 11 12 13 14 15 16 17 18 19 20 21 22 23 24 25 26 27 28 29 30 31); };
}
const TUPLES: usize = 32;
const MAX_ARITY: usize = 4;
// the real tuple impls of aldrin-core
with_tuples!(real_tuple1, T, (Elem<T, 0>,));
with_tuples!(real_tuple2, T, (Elem<T, 0>, Elem<T, 1>));
with_tuples!(real_tuple3, T, (Elem<T, 0>, Elem<T, 1>, Elem<T, 2>));
with_tuples!(real_tuple4, T, (Elem<T, 0>, Elem<T, 1>, Elem<T, 2>, Elem<T, 3>));

// ------------------------------------------------------------------------------------------------
// a universe built from the JSON presentation
struct Universe {
    /// canonical key of a type expression -> node index (definitions first, in declaration order)
    index: HashMap<String, usize>,
    exprs: Vec<Value>,
    nodes: Vec<Node>,
    dyns: Vec<DynIntrospectable>,
    /// per node: the type expressions it references directly, in the order add_references uses
    ref_exprs: Vec<Vec<Value>>,
    /// node index of a tuple expression -> its tuple number; per tuple number the nodes of the elements
    tuple_no: HashMap<usize, usize>,
    elems: Vec<[usize; MAX_ARITY]>,
}

/// canonical string of a type expression / a CanonId: arrays are sets (or options), except the elements of a tuple
fn key(t: &Value) -> String {
    canonical_string(t, &["es"])
}

fn s<'a>(v: &'a Value, k: &str) -> &'a str {
    v[k].as_str().unwrap_or("")
}

fn num(v: &Value, k: &str) -> u32 {
    s(v, k).parse().unwrap_or_else(|_| panic!("driver: bad number {:?}", v[k]))
}

fn opt(v: &Value) -> Option<&Value> {
    v.as_array().and_then(|a| a.first())
}

fn arr(v: &Value) -> &[Value] {
    v.as_array().map(Vec::as_slice).unwrap_or(&[])
}

fn ext(schema: &str, name: &str) -> Value {
    json!({"k": "ext", "schema": schema, "name": name})
}

/// direct references of a definition in declaration order (SchemaModel!DefRefs)
fn def_refs(d: &Value) -> Vec<Value> {
    match s(d, "k") {
        "struct" => arr(&d["mem"]).iter().map(|m| m["ty"].clone()).collect(),
        "enum" => arr(&d["mem"]).iter().filter_map(|m| opt(&m["ty"]).cloned()).collect(),
        "newtype" => vec![d["ty"].clone()],
        "service" => {
            let mut r = Vec::new();
            for f in arr(&d["fns"]) {
                for p in ["args", "ok", "err"] {
                    r.extend(opt(&f[p]).cloned());
                }
            }
            for e in arr(&d["evs"]) {
                r.extend(opt(&e["ty"]).cloned());
            }
            r
        }
        k => panic!("driver: unknown definition kind {k}"),
    }
}

fn type_refs(t: &Value) -> Vec<Value> {
    match s(t, "k") {
        "option" | "box" | "vec" | "set" | "sender" | "receiver" | "array" => vec![t["a"].clone()],
        "map" | "result" => vec![t["a"].clone(), t["b"].clone()],
        "tuple" => arr(&t["es"]).to_vec(),
        _ => vec![],
    }
}

fn ordered<T: Clone>(rord: &str, v: Vec<T>) -> Vec<T> {
    match rord {
        "rev" => v.into_iter().rev().collect(),
        "dup" => v.iter().cloned().chain(v.iter().cloned()).collect(),
        "rot" if !v.is_empty() => v[1..].iter().cloned().chain(std::iter::once(v[0].clone())).collect(),
        _ => v,
    }
}

struct Docs<'a>(&'a str);
impl Docs<'_> {
    /// the documentation string of item number i (None: no doc call at all)
    fn of(&self, what: &str, i: usize) -> Option<String> {
        match self.0 {
            "all" => Some(format!("Documentation of {what}.\n\nSecond paragraph.")),
            "alt" if i % 2 == 1 => Some(format!("other words about {what} #{i}")),
            _ => None,
        }
    }
}

impl Universe {
    fn build(p: &Value) -> Self {
        let defs = arr(&p["defs"]);
        let rord = s(p, "rord");
        let real = s(p, "impl") == "real";
        let docs = Docs(s(p, "docs"));
        let mut u = Universe { index: HashMap::new(), exprs: vec![], nodes: vec![], dyns: vec![], ref_exprs: vec![], tuple_no: HashMap::new(), elems: vec![] };
        let kinds: HashMap<String, String> = defs.iter().map(|d| (key(&ext(s(d, "schema"), s(d, "name"))), s(d, "k").to_owned())).collect();

        // node numbering: definitions in declaration order, then every type expression in order of first appearance
        for d in defs {
            u.add_expr(&ext(s(d, "schema"), s(d, "name")));
        }
        let mut i = 0;
        while i < u.exprs.len() {
            let e = u.exprs[i].clone();
            let refs = if i < defs.len() { def_refs(&defs[i]) } else { type_refs(&e) };
            for r in &refs {
                u.add_expr_rec(r);
            }
            u.ref_exprs.push(ordered(rord, refs));
            i += 1;
        }
        assert!(u.exprs.len() <= SLOTS, "driver: universe needs {} slots", u.exprs.len());
        for i in defs.len()..u.exprs.len() {
            if s(&u.exprs[i], "k") == "tuple" {
                let es = arr(&u.exprs[i]["es"]);
                assert!((1..=MAX_ARITY).contains(&es.len()), "driver: tuple arity {}", es.len());
                let mut nodes = [usize::MAX; MAX_ARITY];
                for (p, e) in es.iter().enumerate() {
                    nodes[p] = u.index[&key(e)];
                }
                u.tuple_no.insert(i, u.elems.len());
                u.elems.push(nodes);
            }
        }
        assert!(u.elems.len() <= TUPLES, "driver: universe needs {} tuple types", u.elems.len());

        // which DynIntrospectable serves a node
        let dyns: Vec<DynIntrospectable> = (0..u.exprs.len()).map(|i| if real && i >= defs.len() { u.real_dyn(i) } else { slot(i) }).collect();
        u.dyns = dyns;

        // layouts
        let lex = |t: &Value| lexical_id(t, &kinds);
        for i in 0..u.exprs.len() {
            let is_tuple = i >= defs.len() && s(&u.exprs[i], "k") == "tuple";
            let layout = if i < defs.len() {
                def_layout(&defs[i], &lex, &docs)
            } else if is_tuple {
                tuple_layout(&u.exprs[i], &lex)
            } else {
                builtin_layout(&u.exprs[i], &lex).into()
            };
            let refs = u.ref_exprs[i].iter().map(|r| u.dyns[u.index[&key(r)]]).collect();
            u.nodes.push(Node { layout, lex: is_tuple.then(|| lex(&u.exprs[i])), refs });
        }
        u
    }

    fn add_expr(&mut self, t: &Value) -> usize {
        let k = key(t);
        if let Some(i) = self.index.get(&k) {
            return *i;
        }
        self.index.insert(k, self.exprs.len());
        self.exprs.push(t.clone());
        self.exprs.len() - 1
    }

    fn add_expr_rec(&mut self, t: &Value) {
        if !self.index.contains_key(&key(t)) {
            self.add_expr(t);
        }
    }

    /// the real impl of aldrin-core for a built-in node, if there is one; the slot otherwise
    fn real_dyn(&self, i: usize) -> DynIntrospectable {
        let t = &self.exprs[i];
        let child = |k: &str| self.index.get(&key(&t[k])).copied();
        match s(t, "k") {
            "bool" => DynIntrospectable::new::<bool>(),
            "u8" => DynIntrospectable::new::<u8>(),
            "i8" => DynIntrospectable::new::<i8>(),
            "u16" => DynIntrospectable::new::<u16>(),
            "i16" => DynIntrospectable::new::<i16>(),
            "u32" => DynIntrospectable::new::<u32>(),
            "i32" => DynIntrospectable::new::<i32>(),
            "u64" => DynIntrospectable::new::<u64>(),
            "i64" => DynIntrospectable::new::<i64>(),
            "f32" => DynIntrospectable::new::<f32>(),
            "f64" => DynIntrospectable::new::<f64>(),
            "string" => DynIntrospectable::new::<String>(),
            "uuid" => DynIntrospectable::new::<Uuid>(),
            "object_id" => DynIntrospectable::new::<ObjectId>(),
            "service_id" => DynIntrospectable::new::<ServiceId>(),
            "value" => DynIntrospectable::new::<AValue>(),
            "bytes" => DynIntrospectable::new::<Bytes>(),
            "unit" => DynIntrospectable::new::<()>(),
            "option" => real_option(child("a").unwrap()),
            "box" => real_box(child("a").unwrap()),
            "vec" => real_vec(child("a").unwrap()),
            "set" => real_set(child("a").unwrap()),
            "array" => match t["len"]["lit"].as_str() {
                Some("2") => real_arr2(child("a").unwrap()),
                Some("3") => real_arr3(child("a").unwrap()),
                Some("4") => real_arr4(child("a").unwrap()),
                _ => slot(i),
            },
            "map" => match s(&t["a"], "k") {
                "string" => real_map_string(child("b").unwrap()),
                "u8" => real_map_u8(child("b").unwrap()),
                "u32" => real_map_u32(child("b").unwrap()),
                _ => slot(i),
            },
            "tuple" => {
                let n = self.tuple_no[&i];
                match arr(&t["es"]).len() {
                    1 => real_tuple1(n),
                    2 => real_tuple2(n),
                    3 => real_tuple3(n),
                    4 => real_tuple4(n),
                    _ => slot(i),
                }
            }
            _ => slot(i),
        }
    }

    fn install(&self) {
        REG.with(|r| *r.borrow_mut() = self.nodes.clone());
        ELEMS.with(|e| *e.borrow_mut() = self.elems.clone());
    }

    fn dyn_of(&self, t: &Value) -> DynIntrospectable {
        self.dyns[*self.index.get(&key(t)).unwrap_or_else(|| panic!("driver: unknown type {t}"))]
    }
}

fn lexical_id(t: &Value, kinds: &HashMap<String, String>) -> LexicalId {
    let a = || lexical_id(&t["a"], kinds);
    let b = || lexical_id(&t["b"], kinds);
    match s(t, "k") {
        "bool" => LexicalId::BOOL,
        "u8" => LexicalId::U8,
        "i8" => LexicalId::I8,
        "u16" => LexicalId::U16,
        "i16" => LexicalId::I16,
        "u32" => LexicalId::U32,
        "i32" => LexicalId::I32,
        "u64" => LexicalId::U64,
        "i64" => LexicalId::I64,
        "f32" => LexicalId::F32,
        "f64" => LexicalId::F64,
        "string" => LexicalId::STRING,
        "uuid" => LexicalId::UUID,
        "object_id" => LexicalId::OBJECT_ID,
        "service_id" => LexicalId::SERVICE_ID,
        "value" => LexicalId::VALUE,
        "bytes" => LexicalId::BYTES,
        "lifetime" => LexicalId::LIFETIME,
        "unit" => LexicalId::UNIT,
        "option" => LexicalId::option(a()),
        "box" => LexicalId::box_ty(a()),
        "vec" => LexicalId::vec(a()),
        "set" => LexicalId::set(a()),
        "sender" => LexicalId::sender(a()),
        "receiver" => LexicalId::receiver(a()),
        "map" => LexicalId::map(a(), b()),
        "result" => LexicalId::result(a(), b()),
        "array" => LexicalId::array(a(), num(&t["len"], "lit")),
        "tuple" => {
            // the lexical id of a generic custom type: schema, name and the ids of the type arguments
            let es: Vec<LexicalId> = arr(&t["es"]).iter().map(|e| lexical_id(e, kinds)).collect();
            let name = format!("Tuple{}", es.len());
            match es[..] {
                [a] => LexicalId::custom_generic("std", name, &[a]),
                [a, b] => LexicalId::custom_generic("std", name, &[a, b]),
                [a, b, c] => LexicalId::custom_generic("std", name, &[a, b, c]),
                [a, b, c, d] => LexicalId::custom_generic("std", name, &[a, b, c, d]),
                _ => panic!("driver: tuple arity {}", es.len()),
            }
        }
        "ext" => {
            if kinds.get(&key(t)).map(String::as_str) == Some("service") {
                LexicalId::service(s(t, "schema"), s(t, "name"))
            } else {
                LexicalId::custom(s(t, "schema"), s(t, "name"))
            }
        }
        k => panic!("driver: unknown type kind {k}"),
    }
}

fn builtin_layout(t: &Value, lex: &dyn Fn(&Value) -> LexicalId) -> ir::BuiltInTypeIr {
    use ir::BuiltInTypeIr as B;
    match s(t, "k") {
        "bool" => B::Bool,
        "u8" => B::U8,
        "i8" => B::I8,
        "u16" => B::U16,
        "i16" => B::I16,
        "u32" => B::U32,
        "i32" => B::I32,
        "u64" => B::U64,
        "i64" => B::I64,
        "f32" => B::F32,
        "f64" => B::F64,
        "string" => B::String,
        "uuid" => B::Uuid,
        "object_id" => B::ObjectId,
        "service_id" => B::ServiceId,
        "value" => B::Value,
        "bytes" => B::Bytes,
        "lifetime" => B::Lifetime,
        "unit" => B::Unit,
        "option" => B::Option(lex(&t["a"])),
        "box" => B::Box(lex(&t["a"])),
        "vec" => B::Vec(lex(&t["a"])),
        "set" => B::Set(lex(&t["a"])),
        "sender" => B::Sender(lex(&t["a"])),
        "receiver" => B::Receiver(lex(&t["a"])),
        "map" => B::Map(ir::MapTypeIr::new(lex(&t["a"]), lex(&t["b"]))),
        "result" => B::Result(ir::ResultTypeIr::new(lex(&t["a"]), lex(&t["b"]))),
        "array" => B::Array(ir::ArrayTypeIr::new(lex(&t["a"]), num(&t["len"], "lit"))),
        k => panic!("driver: not a built-in type: {k}"),
    }
}

/// the layout of a tuple as SchemaModel!TupleDef describes it: struct std::TupleN, required fields field<i> @ i
fn tuple_layout(t: &Value, lex: &dyn Fn(&Value) -> LexicalId) -> ir::LayoutIr {
    let es = arr(&t["es"]);
    let mut b = ir::StructIr::builder("std", format!("Tuple{}", es.len()));
    for (i, e) in es.iter().enumerate() {
        b = b.field(ir::FieldIr::builder(i as u32, format!("field{i}"), true, lex(e)).finish());
    }
    b.finish().into()
}

/// the IR of a definition through the public builders, members inserted in the order of the presentation
fn def_layout(d: &Value, lex: &dyn Fn(&Value) -> LexicalId, docs: &Docs) -> ir::LayoutIr {
    let (schema, name) = (s(d, "schema"), s(d, "name"));
    macro_rules! doc {
        ($b:expr, $what:expr, $i:expr) => {{
            let b = $b;
            match docs.of($what, $i) {
                Some(text) => b.doc(text),
                None => b,
            }
        }};
    }
    match s(d, "k") {
        "struct" => {
            let mut b = doc!(ir::StructIr::builder(schema, name), name, 1);
            for (i, m) in arr(&d["mem"]).iter().enumerate() {
                let f = doc!(ir::FieldIr::builder(num(m, "id"), s(m, "name"), m["req"].as_bool().unwrap_or(false), lex(&m["ty"])), s(m, "name"), i);
                b = b.field(f.finish());
            }
            if let Some(f) = opt(&d["fb"]) {
                b = b.fallback(doc!(ir::StructFallbackIr::builder(f.as_str().unwrap_or("")), "fallback", 1).finish());
            }
            b.finish().into()
        }
        "enum" => {
            let mut b = doc!(ir::EnumIr::builder(schema, name), name, 1);
            for (i, m) in arr(&d["mem"]).iter().enumerate() {
                let mut v = doc!(ir::VariantIr::builder(num(m, "id"), s(m, "name")), s(m, "name"), i);
                if let Some(t) = opt(&m["ty"]) {
                    v = v.variant_type(lex(t));
                }
                b = b.variant(v.finish());
            }
            if let Some(f) = opt(&d["fb"]) {
                b = b.fallback(doc!(ir::EnumFallbackIr::builder(f.as_str().unwrap_or("")), "fallback", 1).finish());
            }
            b.finish().into()
        }
        "newtype" => doc!(ir::NewtypeIr::builder(schema, name, lex(&d["ty"])), name, 1).finish().into(),
        "service" => {
            let uuid: Uuid = s(d, "uuid").parse().expect("driver: service uuid");
            let mut b = doc!(ir::ServiceIr::builder(schema, name, ServiceUuid(uuid), num(d, "ver")), name, 1);
            for (i, f) in arr(&d["fns"]).iter().enumerate() {
                let mut fb = doc!(ir::FunctionIr::builder(num(f, "id"), s(f, "name")), s(f, "name"), i);
                if let Some(t) = opt(&f["args"]) {
                    fb = fb.args(lex(t));
                }
                if let Some(t) = opt(&f["ok"]) {
                    fb = fb.ok(lex(t));
                }
                if let Some(t) = opt(&f["err"]) {
                    fb = fb.err(lex(t));
                }
                b = b.function(fb.finish());
            }
            for (i, e) in arr(&d["evs"]).iter().enumerate() {
                let mut eb = doc!(ir::EventIr::builder(num(e, "id"), s(e, "name")), s(e, "name"), i);
                if let Some(t) = opt(&e["ty"]) {
                    eb = eb.event_type(lex(t));
                }
                b = b.event(eb.finish());
            }
            if let Some(f) = opt(&d["fnfb"]) {
                b = b.function_fallback(doc!(ir::FunctionFallbackIr::builder(f.as_str().unwrap_or("")), "fn fallback", 1).finish());
            }
            if let Some(f) = opt(&d["evfb"]) {
                b = b.event_fallback(doc!(ir::EventFallbackIr::builder(f.as_str().unwrap_or("")), "event fallback", 1).finish());
            }
            b.finish().into()
        }
        k => panic!("driver: unknown definition kind {k}"),
    }
}

/// every type id a resolved layout mentions
fn layout_type_ids(l: &Layout) -> Vec<TypeId> {
    match l {
        Layout::BuiltIn(b) => match *b {
            BuiltInType::Option(t) | BuiltInType::Box(t) | BuiltInType::Vec(t) | BuiltInType::Set(t) | BuiltInType::Sender(t)
            | BuiltInType::Receiver(t) => vec![t],
            BuiltInType::Map(m) => vec![m.key(), m.value()],
            BuiltInType::Result(r) => vec![r.ok(), r.err()],
            BuiltInType::Array(a) => vec![a.elem_type()],
            _ => vec![],
        },
        Layout::Struct(x) => x.fields().values().map(|f| f.field_type()).collect(),
        Layout::Enum(x) => x.variants().values().filter_map(|v| v.variant_type()).collect(),
        Layout::Newtype(x) => vec![x.target_type()],
        Layout::Service(x) => x
            .functions()
            .values()
            .flat_map(|f| [f.args(), f.ok(), f.err()])
            .flatten()
            .chain(x.events().values().filter_map(|e| e.event_type()))
            .collect(),
    }
}

// ------------------------------------------------------------------------------------------------
struct Computed {
    type_id: Option<TypeId>,
    /// number of tuple types of the universe; how many of them are served by the real impls of aldrin-core
    tuples: usize,
    real_tuples: usize,
}

fn judge(v: &Value, viol: &mut Findings, roundtrips: &mut u64, refs_checked: &mut u64) -> Computed {
    let id = s(v, "id");
    let case = || json!({"id": id, "u": v["u"], "op": v["op"], "what": v["what"], "root": v["root"], "P": v["P"], "canon": v["canon"],
                         "base": v["base"], "expect": v["expect"], "listed": v["listed"]});
    let root = ext(s(&v["root"], "schema"), s(&v["root"], "name"));
    let universe = match guarded(|| Universe::build(&v["P"])) {
        Ok(u) => u,
        Err(m) => {
            eprintln!("driver error while building {id}: {m}");
            std::process::exit(2);
        }
    };
    universe.install();
    let root_dyn = universe.dyn_of(&root);
    let tuples = universe.elems.len();
    let real_tuples = if s(&v["P"], "impl") == "real" { tuples } else { 0 };

    let r = guarded(|| {
        let t1 = TypeId::compute_from_dyn(root_dyn);
        let t2 = TypeId::compute_from_dyn(root_dyn);
        let intro = Introspection::from_dyn(root_dyn);
        let ser = SerializedValue::serialize(&intro);
        let back = ser.as_ref().ok().map(|sv| sv.deserialize::<Introspection>());
        // the ids of the directly referenced types, computed on their own
        let direct: Vec<TypeId> = universe.ref_exprs[universe.index[&key(&root)]].iter().map(|t| TypeId::compute_from_dyn(universe.dyn_of(t))).collect();
        (t1, t2, intro, ser.is_ok(), back, direct)
    });
    let (t1, t2, intro, ser_ok, back, direct) = match r {
        Err(m) => {
            viol.add(&format!("I1 panic while computing the id / introspection record: {}", m.chars().take(160).collect::<String>()), case());
            return Computed { type_id: None, tuples, real_tuples };
        }
        Ok(x) => x,
    };
    if t1 != t2 {
        viol.add("I2 computing the id twice gives different ids", case());
    }
    if intro.type_id() != t1 {
        viol.add("I3 the introspection record carries an id other than TypeId::compute_from_dyn", case());
    }
    match back {
        Some(Ok(back)) if ser_ok => {
            *roundtrips += 1;
            if back != intro {
                viol.add("I3 the deserialized introspection record differs from the original", case());
            }
            let direct: BTreeSet<TypeId> = direct.into_iter().collect();
            for t in layout_type_ids(back.layout()) {
                *refs_checked += 1;
                if !back.references().contains(&t) {
                    viol.add("I4 a type id of the layout is not among the references of the record", case());
                    break;
                }
                if !direct.contains(&t) {
                    viol.add("I4 a reference of the layout is not the id of the referenced type", case());
                    break;
                }
            }
            let refs: BTreeSet<TypeId> = back.references().iter().copied().collect();
            if refs != direct {
                viol.add("I4 the references of the record are not the ids of the directly referenced types", case());
            }
        }
        _ => viol.add("I3 the introspection record does not serialize / deserialize", case()),
    }
    Computed { type_id: Some(t1), tuples, real_tuples }
}

/// CanonId with the aspects the statement does not list masked (service uuid and version)
fn mask_unlisted(v: &Value) -> Value {
    match v {
        Value::Object(o) => Value::Object(
            o.iter()
                .map(|(k, x)| (k.clone(), if o.get("kind").and_then(Value::as_str) == Some("service") && (k == "uuid" || k == "ver") { json!("*") } else { mask_unlisted(x) }))
                .collect(),
        ),
        Value::Array(a) => Value::Array(a.iter().map(mask_unlisted).collect()),
        other => other.clone(),
    }
}

fn main() {
    let args = Args::parse();
    silence_panics();
    let (vectors, pinned, corrupt): (Vec<Value>, Value, u64) = match args.cmd.as_str() {
        "run" => (
            read_ndjson(args.req("vectors")),
            args.get("pinned").and_then(|f| std::fs::read_to_string(f).ok()).and_then(|t| serde_json::from_str(&t).ok()).unwrap_or(json!({})),
            args.num("corrupt", 0),
        ),
        "replay" => {
            let data: Value = serde_json::from_str(&std::fs::read_to_string(args.req("file")).expect("replay file")).expect("json");
            let mut cases = vec![data["case"].clone()];
            cases.extend(data.get("other").cloned());
            (cases, json!({}), 0)
        }
        _ => {
            eprintln!("usage: schema-ids run --vectors F [--pinned F] [--corrupt N] | replay --file F");
            std::process::exit(2);
        }
    };

    let handle = std::thread::Builder::new()
        .stack_size(256 << 20)
        .spawn(move || {
            let mut viol = Findings::default();
            let mut drift = Findings::default();
            let (mut roundtrips, mut refs_checked, mut pinned_ok, mut pinned_checked) = (0u64, 0u64, 0u64, 0u64);
            let (mut tuple_cases, mut real_tuple_cases, mut max_tuples) = (0u64, 0u64, 0usize);
            let mut ids: Vec<Option<TypeId>> = Vec::new();
            let mut keys: Vec<String> = Vec::new();
            let mut by_op: BTreeMap<String, u64> = BTreeMap::new();
            for (n, v) in vectors.iter().enumerate() {
                let c = judge(v, &mut viol, &mut roundtrips, &mut refs_checked);
                ids.push(c.type_id);
                tuple_cases += (c.tuples > 0) as u64;
                real_tuple_cases += (c.real_tuples > 0) as u64;
                max_tuples = max_tuples.max(c.tuples);
                // binding sanity: a corrupted expected description must be noticed
                keys.push(if (n as u64) < corrupt { format!("corrupted-{n}") } else { key(&v["canon"]) });
                *by_op.entry(s(v, "op").to_owned()).or_insert(0) += 1;
                if s(v, "op") == "base" {
                    if let (Some(want), Some(got)) = (pinned.get(format!("{}/{}", s(&v["root"], "schema"), s(&v["root"], "name"))).and_then(Value::as_str), c.type_id) {
                        pinned_checked += 1;
                        if got.0.to_string() == want.to_lowercase() {
                            pinned_ok += 1;
                        } else {
                            drift.add("pinned id of core/src/introspection/test not re-derived", json!({"id": v["id"], "want": want, "got": got.0.to_string()}));
                        }
                    }
                }
            }
            let small = |v: &Value| json!({"id": v["id"], "u": v["u"], "op": v["op"], "what": v["what"], "root": v["root"], "P": v["P"], "canon": v["canon"],
                                           "base": v["base"], "expect": v["expect"], "listed": v["listed"]});
            let pos: HashMap<&str, usize> = vectors.iter().enumerate().map(|(i, v)| (s(v, "id"), i)).collect();

            // I5 / I6: every case against its base
            let mut named: HashSet<usize> = HashSet::new();
            for (i, v) in vectors.iter().enumerate() {
                let Some(&b) = pos.get(s(v, "base")) else { continue };
                let (Some(ti), Some(tb)) = (ids[i], ids[b]) else { continue };
                let op = s(v, "op");
                let what = s(v, "what");
                let payload = || {
                    let mut c = small(v);
                    c["type_id"] = json!(ti.0.to_string());
                    json!({"case": c, "other": small(&vectors[b]), "other_type_id": tb.0.to_string()})
                };
                if s(v, "expect") == "eq" && ti != tb && keys[i] == keys[b] {
                    named.insert(i);
                    let why = if op.ends_with("edit") {
                        format!("I5 an edit ({what}) of a definition the type does not reference changes its id")
                    } else {
                        format!("I5 the id changes under {op} although the wire-relevant description is the same")
                    };
                    viol.add(&why, payload());
                } else if s(v, "expect") == "ne" && ti == tb && keys[i] != keys[b] {
                    named.insert(i);
                    if v["listed"].as_bool().unwrap_or(true) {
                        viol.add(&format!("I6 a semantic edit ({what}) does not change the id"), payload());
                    } else {
                        drift.add(&format!("an edit of an aspect the statement does not list ({what}) does not change the id"), payload());
                    }
                }
            }
            // I7: pairwise across the corpus, equal CanonId <=> equal TypeId
            let mut by_key: BTreeMap<&str, BTreeMap<TypeId, usize>> = BTreeMap::new();
            let mut by_id: BTreeMap<TypeId, BTreeMap<&str, usize>> = BTreeMap::new();
            for i in 0..vectors.len() {
                if let Some(t) = ids[i] {
                    by_key.entry(&keys[i]).or_default().entry(t).or_insert(i);
                    by_id.entry(t).or_default().entry(&keys[i]).or_insert(i);
                }
            }
            for (_, m) in &by_key {
                if m.len() > 1 {
                    let idx: Vec<usize> = m.values().copied().collect();
                    if idx.iter().any(|i| named.contains(i)) {
                        continue;
                    }
                    viol.add("I7 two presentations with the same wire-relevant description have different ids",
                        json!({"case": small(&vectors[idx[0]]), "other": small(&vectors[idx[1]])}));
                }
            }
            for (_, m) in &by_id {
                if m.len() > 1 {
                    let idx: Vec<usize> = m.values().copied().collect();
                    if idx.iter().any(|i| named.contains(i)) {
                        continue;
                    }
                    let masked: BTreeSet<String> = idx.iter().map(|&i| key(&mask_unlisted(&vectors[i]["canon"]))).collect();
                    let payload = json!({"case": small(&vectors[idx[0]]), "other": small(&vectors[idx[1]])});
                    if masked.len() > 1 || keys[idx[0]].starts_with("corrupted") || keys[idx[1]].starts_with("corrupted") {
                        viol.add("I7 two presentations with different wire-relevant descriptions have the same id", payload);
                    } else {
                        drift.add("two presentations that differ only in an aspect the statement does not list have the same id", payload);
                    }
                }
            }

            let distinct_ids: BTreeSet<TypeId> = ids.iter().flatten().copied().collect();
            let distinct_keys: BTreeSet<&String> = keys.iter().collect();
            let samples: Vec<Value> = vectors
                .iter()
                .enumerate()
                .filter(|(_, v)| matches!(s(v, "op"), "base" | "combo") && s(v, "u") == "mutual")
                .take(3)
                .map(|(i, v)| json!({"id": v["id"], "root": v["root"], "type_id": ids[i].map(|t| t.0.to_string()), "canon": v["canon"]}))
                .collect();
            json!({"cases": vectors.len(), "by_op": by_op, "classes": distinct_keys.len(), "distinct_type_ids": distinct_ids.len(),
                   "roundtrips_ok": roundtrips, "layout_references_checked": refs_checked, "pinned_checked": pinned_checked, "pinned_ok": pinned_ok,
                   "tuple_cases": tuple_cases, "real_tuple_cases": real_tuple_cases, "max_tuple_types": max_tuples,
                   "violation_count": viol.count(), "violations_by_why": viol.by_why_json(), "violations": viol.first,
                   "drift_count": drift.count(), "drifts_by_why": drift.by_why_json(), "drifts": drift.first, "samples": samples})
        })
        .expect("thread");
    match handle.join() {
        Ok(summary) => println!("{summary}"),
        Err(_) => {
            eprintln!("driver thread died");
            std::process::exit(2);
        }
    }
}
