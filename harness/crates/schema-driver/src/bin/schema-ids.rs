fn main(){}
