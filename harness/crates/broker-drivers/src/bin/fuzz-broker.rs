//! fuzz-broker: seeded random message sequences against the real broker and connection tasks.
//!
//! Each run: up to `max-conns` raw connections of random protocol versions send messages drawn by
//! the profile's generator, interleaved with executor steps, the four connection endings and
//! (rarely) broker shutdown. At the end a well-behaved probe connection is served, then everything
//! is closed and an idle shutdown is requested. The hook records of all runs are written as one
//! ndjson trace (runs separated by `reset` records) for TLC; a summary goes to stdout.

use aldrin_core::message::{CreateObject, CreateObjectResult, Message, Shutdown, Sync};
use aldrin_core::ObjectUuid;
use broker_drivers::{Pools, Profile};
use serde_json::json;
use std::path::PathBuf;
use vcore::exec::{install_panic_hook, RunOutcome, TaskState};
use vcore::rng::Rng;
use vcore::trace::{build_trace, Namer};
use vcore::world::{ConnectOutcome, World};

struct Args {
    seed: u64,
    runs: u64,
    len: u64,
    profile: Profile,
    out: PathBuf,
    max_conns: usize,
    fault_pct: u64,
    wild: bool,
}

fn parse_args() -> Args {
    let mut a = Args {
        seed: 1,
        runs: 10,
        len: 60,
        profile: Profile::Mixed,
        out: PathBuf::from("trace.ndjson"),
        max_conns: 4,
        fault_pct: 4,
        wild: true,
    };
    let v: Vec<String> = std::env::args().collect();
    let mut i = 1;
    while i < v.len() {
        let val = || v.get(i + 1).cloned().unwrap_or_default();
        match v[i].as_str() {
            "--seed" => a.seed = val().parse().unwrap(),
            "--runs" => a.runs = val().parse().unwrap(),
            "--len" => a.len = val().parse().unwrap(),
            "--profile" => a.profile = Profile::parse(&val()).expect("profile"),
            "--out" => a.out = PathBuf::from(val()),
            "--max-conns" => a.max_conns = val().parse().unwrap(),
            "--fault-pct" => a.fault_pct = val().parse().unwrap(),
            "--tame" => {
                a.wild = false;
                i += 1;
                continue;
            }
            x => panic!("unknown argument {x}"),
        }
        i += 2;
    }
    a
}

const STEP_BOUND: u64 = 200_000;

fn connect(w: &mut World, rng: &mut Rng, pools: &mut Pools) -> Option<usize> {
    // versions: mostly valid, both handshake messages
    let (minor, connect2) = match rng.below(10) {
        0 => (14, false),
        1 => (21, true), // negotiated down to 20
        2 | 3 => (14 + rng.below(7) as u32, true),
        _ => (18 + rng.below(3) as u32, true),
    };
    match w.connect(rng, 1, minor, connect2, None) {
        ConnectOutcome::Connected(i) => {
            pools.add_conn_id(w.conns[i].id);
            Some(i)
        }
        ConnectOutcome::Refused(_) => None,
    }
}

fn one_run(args: &Args, rng: &mut Rng, run: u64) -> (Vec<vcore::trace::Item>, serde_json::Value) {
    let mut w = World::new();
    let mut pools = Pools::new(rng, args.wild);
    let mut stuck = false;
    let mut sent = 0u64;
    let mut ended: Vec<bool> = Vec::new();
    let mut broker_shutdown_requested = false;

    // start with two connections
    for _ in 0..2 {
        if connect(&mut w, rng, &mut pools).is_some() {
            ended.push(false);
        }
    }

    for _ in 0..args.len {
        if !w.broker_running() {
            break;
        }
        let r = rng.below(100);
        let live: Vec<usize> = (0..w.conns.len()).filter(|&i| !ended[i]).collect();
        if r < 6 && w.conns.len() < args.max_conns + 3 && live.len() < args.max_conns {
            if connect(&mut w, rng, &mut pools).is_some() {
                ended.push(false);
            }
        } else if r < 6 + args.fault_pct && !live.is_empty() {
            // half of the faults are dropped tasks of connections that are engaged with others
            if let Some(d) = w.last_dump() {
                pools.view = broker_drivers::View::from_dump(&d);
            }
            let engaged: Vec<usize> = live
                .iter()
                .copied()
                .filter(|&i| {
                    let id = w.conns[i].id;
                    let v = &pools.view;
                    v.call_links.iter().any(|c| c.0 == id || c.2 == id)
                        || v.subscriptions.iter().any(|x| x.1 == id)
                        || v.chans.iter().any(|c| c.1 == id || c.2 == id)
                        || v.listener_owners.iter().any(|l| l.0 == id)
                })
                .collect();
            let drop_engaged = !engaged.is_empty() && rng.chance(1, 2);
            let i = if drop_engaged { *rng.pick(&engaged) } else { *rng.pick(&live) };
            match if drop_engaged { 2 } else { rng.below(4) } {
                0 => {
                    w.send(i, Shutdown.into());
                }
                1 => w.close_transport(i),
                2 => {
                    // prefer a moment at which the connection is engaged with others, and follow up
                    // with traffic that makes the broker send to it (it does not know yet)
                    // "terminated while its requests are still queued in the broker": the victim's own
                    // requests are forwarded into the broker's queue, then its task is dropped
                    if rng.chance(1, 2) {
                        for msg in pools.gen_own_requests(rng, i) {
                            if w.send(i, msg) {
                                sent += 1;
                            }
                        }
                        w.pump_conn(i, 6);
                    }
                    w.drop_conn_task(i);
                    if let Some(d) = w.last_dump() {
                        pools.view = broker_drivers::View::from_dump(&d);
                    }
                    let dead = w.conns[i].id;
                    for _ in 0..(1 + rng.below(3)) {
                        if rng.chance(3, 4) {
                            if let Some((j, msg)) = pools.gen_targeting(rng, dead) {
                                if j < ended.len() && !ended[j] && w.send(j, msg) {
                                    sent += 1;
                                }
                            }
                        }
                    }
                }
                _ => w.spawn_shutdown_conn(i),
            }
            ended[i] = true;
        } else if r < 25 {
            // let things run: a few steps or to quiescence
            if rng.chance(1, 2) {
                let k = 1 + rng.below(6);
                w.steps(rng, k);
            } else if w.run(rng, STEP_BOUND) == RunOutcome::StepBound {
                stuck = true;
                break;
            }
            for i in 0..w.conns.len() {
                let got = w.drain(i);
                pools.learn(i, &got);
            }
            if rng.chance(1, 2) {
                w.answer_shutdowns(rng.chance(1, 3));
            }
        } else if !live.is_empty() {
            let i = *rng.pick(&live);
            if let Some(d) = w.last_dump() {
                pools.view = broker_drivers::View::from_dump(&d);
            }
            pools.tick_focus(rng);
            let msg = pools.gen(rng, i, args.profile);
            // items come in bursts (flow control is about sequences on one channel)
            let burst = if matches!(msg, Message::SendItem(_)) && rng.chance(1, 2) { 1 + rng.below(6) } else { 0 };
            if w.send(i, msg.clone()) {
                sent += 1;
            }
            for _ in 0..burst {
                if w.send(i, msg.clone()) {
                    sent += 1;
                }
            }
            if rng.chance(3, 5) {
                if rng.chance(1, 3) {
                    let k = 1 + rng.below(4);
                    w.steps(rng, k);
                } else if w.run(rng, STEP_BOUND) == RunOutcome::StepBound {
                    stuck = true;
                    break;
                }
                for i in 0..w.conns.len() {
                    let got = w.drain(i);
                    pools.learn(i, &got);
                }
            }
        }
        if !broker_shutdown_requested && rng.chance(1, 400) {
            w.spawn_shutdown_broker();
            broker_shutdown_requested = true;
        }
    }

    if w.run(rng, STEP_BOUND) == RunOutcome::StepBound {
        stuck = true;
    }

    // probe: a well-behaved connection must still be served
    let mut probe_ok = true;
    let mut probed = false;
    if w.broker_running() && !broker_shutdown_requested && !stuck {
        if let ConnectOutcome::Connected(p) = w.connect(rng, 1, 20, true, None) {
            probed = true;
            pools.add_conn_id(w.conns[p].id);
            ended.push(false);
            let uuid = ObjectUuid::new_v4();
            w.send(p, Sync { serial: 7 }.into());
            w.send(p, CreateObject { serial: 8, uuid }.into());
            if w.run(rng, STEP_BOUND) == RunOutcome::StepBound {
                stuck = true;
            }
            let got = &w.conns[p].received;
            let sync_ok = got.iter().any(|m| matches!(m, Message::SyncReply(r) if r.serial == 7));
            let create_ok = got.iter().any(|m| {
                matches!(m, Message::CreateObjectReply(r) if r.serial == 8 && matches!(r.result, CreateObjectResult::Ok(_)))
            });
            probe_ok = sync_ok && create_ok;
        } else {
            probe_ok = false;
            probed = true;
        }
        w.marker(json!({"t": "probe", "ok": probe_ok}));
    }

    // end of run: every remaining connection ends one way or another, then idle shutdown
    for i in 0..w.conns.len() {
        if !ended[i] {
            // a connection task that has already returned is left alone: if the broker still has it
            // registered, that is for the observer to see
            if matches!(w.exec.state(w.conns[i].task), TaskState::Done) {
                ended[i] = true;
                continue;
            }
            match rng.below(3) {
                0 => {
                    w.send(i, Shutdown.into());
                }
                1 => w.close_transport(i),
                _ => w.spawn_shutdown_conn(i),
            }
            ended[i] = true;
        }
    }
    w.spawn_shutdown_idle();
    loop {
        if w.run(rng, STEP_BOUND) == RunOutcome::StepBound {
            stuck = true;
            break;
        }
        // clients that were told to shut down answer (a connection task waits for that)
        if w.answer_shutdowns(rng.chance(1, 3)) == 0 {
            break;
        }
    }
    // connections whose task was dropped are only noticed on a failed send: close their transport
    // is not possible (the task is gone), so the broker may legitimately keep them (DESIGN 2.5).
    let dropped_left = w.conns.iter().any(|c| c.task_dropped);
    let broker_done = matches!(w.broker_state(), TaskState::Done);
    let conn_tasks: Vec<serde_json::Value> = w
        .conns
        .iter()
        .map(|c| {
            json!({"c": c.id, "dropped": c.task_dropped,
                "done": matches!(w.exec.state(c.task), TaskState::Done),
                "res": match &*c.run_result.borrow() { Some(Ok(())) => "ok".to_string(), Some(Err(e)) => e.clone(), None => "none".to_string() }})
        })
        .collect();
    let panics = w.panics();
    for (_, name, msg) in &panics {
        w.marker(json!({"t": "panic", "task": name, "msg": msg}));
    }
    w.marker(json!({"t": "end", "brokerDone": broker_done, "droppedLeft": dropped_left,
        "sdb": broker_shutdown_requested, "conns": conn_tasks, "stuck": stuck}));

    let summary = json!({"run": run, "sent": sent, "conns": w.conns.len(), "stuck": stuck, "probed": probed,
        "probeOk": probe_ok, "brokerDone": broker_done, "panics": panics.iter().map(|p| format!("{}: {}", p.1, p.2)).collect::<Vec<_>>()});
    (w.finish(), summary)
}

fn main() {
    let args = parse_args();
    install_panic_hook();
    let mut rng = Rng::new(args.seed);
    let mut lines = Vec::new();
    let mut summaries = Vec::new();
    let mut total_sent = 0;
    for run in 0..args.runs {
        let mut run_rng = rng.fork();
        let (items, summary) = one_run(&args, &mut run_rng, run);
        let mut namer = Namer::new();
        lines.push(json!({"t": "reset", "run": run, "out": []}));
        lines.extend(build_trace(&mut namer, &items));
        total_sent += summary["sent"].as_u64().unwrap_or(0);
        summaries.push(summary);
    }
    vcore::write_ndjson(&args.out, &lines).expect("write trace");
    let bad: Vec<_> = summaries
        .iter()
        .filter(|s| s["stuck"] == true || s["probeOk"] == false || !s["panics"].as_array().unwrap().is_empty())
        .cloned()
        .collect();
    println!(
        "{}",
        json!({"driver": "fuzz-broker", "seed": args.seed, "runs": args.runs, "records": lines.len(), "sent": total_sent, "flagged": bad})
    );
}
