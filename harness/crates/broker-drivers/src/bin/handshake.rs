//! handshake: replays the handshake table on the real Acceptor (through BrokerHandle::connect, real
//! broker) and on the real ClientBuilder (against a scripted reply), and records the outcomes as
//! ndjson for validation against spec/Handshake.tla.

use aldrin_core::message::{Connect, Connect2, ConnectData, ConnectReply, ConnectReply2, ConnectReplyData, ConnectResult, Message};
use aldrin_core::SerializedValue;
use serde_json::json;
use vcore::exec::{install_panic_hook, shared, Executor};
use vcore::link::pair;
use vcore::rng::Rng;
use vcore::trace::{u32j, Item};

fn broker_side(connect2: bool, major: u32, minor: u32, rng: &mut Rng) -> serde_json::Value {
    let mut w = vcore::world::World::new();
    let out = w.connect(rng, major, minor, connect2, None);
    let (res, ver, reply) = match out {
        vcore::world::ConnectOutcome::Connected(i) => ("ok", w.conns[i].version as i64, "ok".to_string()),
        vcore::world::ConnectOutcome::Refused(reply) => {
            let r = match &reply {
                Some(Message::ConnectReply2(ConnectReply2 { result: ConnectResult::IncompatibleVersion, .. })) => "incompatible",
                Some(Message::ConnectReply(ConnectReply::IncompatibleVersion(_))) => "incompatible",
                Some(Message::ConnectReply2(ConnectReply2 { result: ConnectResult::Rejected, .. })) => "rejected",
                Some(_) => "other",
                None => "noreply",
            };
            (r, 0, r.to_string())
        }
    };
    // the version the broker registered the connection with (from the hook)
    let _ = w.run(rng, 100_000);
    let registered = w
        .items
        .borrow()
        .iter()
        .find_map(|it| match it {
            Item::Hook(aldrin_broker::verif::Record::NewConn { version, .. }) => Some(version.minor() as i64),
            _ => None,
        })
        .unwrap_or(0);
    let panics = w.panics().len();
    let _ = w.finish();
    json!({"side": "broker", "connect2": connect2, "major": u32j(major), "minor": u32j(minor), "res": res, "ver": ver,
        "registered": if res == "ok" { registered } else { ver }, "reply": reply, "panics": panics})
}

fn client_side(result: &str, minor: u32, rng: &mut Rng) -> serde_json::Value {
    let mut exec = Executor::new();
    let (mut broker_end, client_end) = pair(None, "b", "c", None);
    let slot = shared(None);
    let s2 = slot.clone();
    let t = exec.spawn("connect", async move {
        let r = aldrin::Client::connect(client_end).await;
        *s2.borrow_mut() = Some(match r {
            Ok(c) => ("ok".to_string(), c.version().minor() as i64),
            Err(aldrin::error::ConnectError::IncompatibleVersion) => ("incompatible".to_string(), 0),
            Err(aldrin::error::ConnectError::Rejected(_)) => ("rejected".to_string(), 0),
            Err(e) => (format!("other:{e:?}"), 0),
        });
    });
    // the client sends Connect2 first
    for _ in 0..100 {
        if exec.step(rng).is_none() {
            break;
        }
    }
    let hello = broker_end.try_recv().ok().flatten();
    let sent_ok = matches!(hello, Some(Message::Connect2(Connect2 { major_version: 1, minor_version: 20, .. })));
    let reply = ConnectReply2 {
        result: match result {
            "ok" => ConnectResult::Ok(minor),
            "rejected" => ConnectResult::Rejected,
            _ => ConnectResult::IncompatibleVersion,
        },
        value: SerializedValue::serialize(ConnectReplyData::new()).unwrap(),
    };
    let _ = broker_end.try_send(reply.into());
    for _ in 0..1000 {
        if !exec.is_running(t) || exec.step(rng).is_none() {
            break;
        }
    }
    let (res, ver) = slot.borrow_mut().take().unwrap_or(("hang".to_string(), 0));
    json!({"side": "client", "result": result, "minor": u32j(minor), "res": res, "ver": ver, "asked_1_20": sent_ok})
}

fn main() {
    install_panic_hook();
    let v: Vec<String> = std::env::args().collect();
    let out = v.get(1).cloned().unwrap_or_else(|| "handshake.ndjson".into());
    let seed: u64 = v.get(2).and_then(|s| s.parse().ok()).unwrap_or(1);
    let mut rng = Rng::new(seed);
    let mut lines = Vec::new();
    let minors: Vec<u32> = (0..=30).chain([u32::MAX, 0x8000_0001]).collect();
    for connect2 in [false, true] {
        let majors: Vec<u32> = if connect2 { vec![0, 1, 2, u32::MAX] } else { vec![1] };
        for &major in &majors {
            for &minor in &minors {
                lines.push(broker_side(connect2, major, minor, &mut rng));
            }
        }
    }
    for result in ["ok", "rejected", "incompatible"] {
        for &minor in &minors {
            lines.push(client_side(result, minor, &mut rng));
        }
    }
    let _ = (Connect { version: 0, value: SerializedValue::serialize(()).unwrap() }, ConnectData::new());
    let bad: Vec<_> = lines.iter().filter(|l| l["panics"].as_u64().unwrap_or(0) > 0 || l["res"] == "hang").cloned().collect();
    vcore::write_ndjson(std::path::Path::new(&out), &lines).expect("write");
    println!("{}", json!({"driver": "handshake", "rows": lines.len(), "flagged": bad}));
}
