//! Specification -> implementation: replays behaviours enumerated by TLC from `MC_Replay.tla`
//! (one JSON array of actions per line) on the real broker and records the trace.
//!
//! Actions: `{"a":"enq","ev":{...}}` an environment input in the model's record shape,
//! `{"a":"dead","c":n}` the connection task is dropped, `{"a":"deq","cookie":k}` the model's broker
//! dequeued one input (and issued cookie k, 0 = none).  Inputs of one batch are forwarded into the
//! real broker's queue while the broker does not run; the first `deq` after a batch runs the system
//! to quiescence.  Model cookies are bound to the real broker's cookies through the creation
//! replies, in order; model uuids, payloads and capacities are mapped to fixed real values.
//!
//! Output: the usual broker trace (ndjson), one `reset` per behaviour, judged by Trace_Obs.tla and
//! Trace_Broker.tla.  A behaviour the harness could not follow (a model cookie that the real broker
//! never issued) is reported as `unbound` in the summary: that is a conformance matter (DRIFT).

use aldrin_broker::verif::Record;
use aldrin_core::message::*;
use aldrin_core::{
    BusListenerCookie, BusListenerFilter, BusListenerScope, BusListenerServiceFilter, ChannelCookie, ChannelEnd,
    ChannelEndWithCapacity, ObjectCookie, ObjectUuid, SerializedValue, ServiceCookie, ServiceInfo, ServiceUuid, TypeId,
};
use serde_json::{json, Value as J};
use std::collections::{HashMap, HashSet, VecDeque};
use std::io::BufRead;
use std::path::PathBuf;
use uuid::Uuid;
use vcore::exec::{install_panic_hook, RunOutcome, TaskState};
use vcore::rng::Rng;
use vcore::trace::{build_trace, Item, Namer};
use vcore::world::{ConnectOutcome, World};

const STEP_BOUND: u64 = 200_000;

struct Toks {
    cookies: HashMap<i64, Uuid>,
    unbound: u64,
}

impl Toks {
    fn uuid(&self, tok: i64) -> Uuid {
        Uuid::from_u128(0xA1D0_0000_0000_0000_0000_0000_0000_0000u128 + tok as u128)
    }
    fn cookie(&mut self, tok: i64) -> Uuid {
        // a cookie the model never issued (NEVER) or one the real broker did not issue: a value the
        // real broker cannot have issued either
        *self
            .cookies
            .entry(tok)
            .or_insert_with(|| Uuid::from_u128(0xDEAD_0000_0000_0000_0000_0000_0000_0000u128 + tok as u128))
    }
    fn payload(&self, p: i64) -> SerializedValue {
        if p == 9 {
            // the model's token for an ill-formed value
            return broker_drivers::raw_value(&[0xff]);
        }
        SerializedValue::serialize(p as u32).unwrap()
    }
}

fn i(m: &J, k: &str) -> i64 {
    m[k].as_i64().unwrap_or_else(|| panic!("field {k} missing in {m}"))
}
fn u(m: &J, k: &str) -> u32 {
    i(m, k) as i32 as u32
}
fn s<'a>(m: &'a J, k: &str) -> &'a str {
    m[k].as_str().unwrap_or_else(|| panic!("field {k} missing in {m}"))
}
/// model capacities are two base-4 limbs; the largest one stands for u32::MAX
fn cap(m: &J) -> u32 {
    let a = m["cap"].as_array().expect("cap");
    let v = a[0].as_i64().unwrap() * 4 + a[1].as_i64().unwrap();
    if v == 15 {
        u32::MAX
    } else {
        v as u32
    }
}
fn opt_serial(m: &J) -> Option<u32> {
    if m["has"].as_bool().unwrap() {
        Some(u(m, "serial"))
    } else {
        None
    }
}
fn end_of(m: &J) -> ChannelEnd {
    if s(m, "end") == "Sender" {
        ChannelEnd::Sender
    } else {
        ChannelEnd::Receiver
    }
}
fn endc(m: &J) -> ChannelEndWithCapacity {
    if s(m, "end") == "Sender" {
        ChannelEndWithCapacity::Sender
    } else {
        ChannelEndWithCapacity::Receiver(cap(m))
    }
}

fn info_value(t: &Toks, info: &J) -> SerializedValue {
    if !info["ok"].as_bool().unwrap() {
        return SerializedValue::serialize("not a service info").unwrap();
    }
    let mut si = ServiceInfo::new(u(info, "ver"));
    let tid = i(info, "tid");
    if tid != 0 {
        si = si.set_type_id(TypeId(t.uuid(tid)));
    }
    match s(info, "sa") {
        "true" => si = si.set_subscribe_all(true),
        "false" => si = si.set_subscribe_all(false),
        _ => {}
    }
    SerializedValue::serialize(si).unwrap()
}

fn filter_of(t: &Toks, f: &J) -> BusListenerFilter {
    let o = i(f, "o");
    let sv = i(f, "s");
    let obj = if o == 0 { None } else { Some(ObjectUuid(t.uuid(o))) };
    if s(f, "ft") == "obj" {
        BusListenerFilter::Object(obj)
    } else {
        let svc = if sv == 0 { None } else { Some(ServiceUuid(t.uuid(sv))) };
        BusListenerFilter::Service(BusListenerServiceFilter { object: obj, service: svc })
    }
}

fn message(t: &mut Toks, m: &J) -> Message {
    let k = s(m, "k");
    match k {
        "CreateObject" => CreateObject { serial: u(m, "serial"), uuid: ObjectUuid(t.uuid(i(m, "uuid"))) }.into(),
        "DestroyObject" => DestroyObject { serial: u(m, "serial"), cookie: ObjectCookie(t.cookie(i(m, "cookie"))) }.into(),
        "CreateService" => CreateService {
            serial: u(m, "serial"),
            object_cookie: ObjectCookie(t.cookie(i(m, "obj"))),
            uuid: ServiceUuid(t.uuid(i(m, "uuid"))),
            version: u(m, "ver"),
        }
        .into(),
        "CreateService2" => CreateService2 {
            serial: u(m, "serial"),
            object_cookie: ObjectCookie(t.cookie(i(m, "obj"))),
            uuid: ServiceUuid(t.uuid(i(m, "uuid"))),
            value: info_value(t, &m["info"]),
        }
        .into(),
        "DestroyService" => DestroyService { serial: u(m, "serial"), cookie: ServiceCookie(t.cookie(i(m, "cookie"))) }.into(),
        "CallFunction" => CallFunction {
            serial: u(m, "serial"),
            service_cookie: ServiceCookie(t.cookie(i(m, "svc"))),
            function: u(m, "fn"),
            value: t.payload(i(m, "val")),
        }
        .into(),
        "CallFunction2" => CallFunction2 {
            serial: u(m, "serial"),
            service_cookie: ServiceCookie(t.cookie(i(m, "svc"))),
            function: u(m, "fn"),
            version: if m["hv"].as_bool().unwrap() { Some(u(m, "ver")) } else { None },
            value: t.payload(i(m, "val")),
        }
        .into(),
        "CallFunctionReply" => CallFunctionReply {
            serial: u(m, "serial"),
            result: match s(m, "res") {
                "Ok" => CallFunctionResult::Ok(t.payload(i(m, "val"))),
                "Err" => CallFunctionResult::Err(t.payload(i(m, "val"))),
                "Aborted" => CallFunctionResult::Aborted,
                "InvalidService" => CallFunctionResult::InvalidService,
                "InvalidFunction" => CallFunctionResult::InvalidFunction,
                _ => CallFunctionResult::InvalidArgs,
            },
        }
        .into(),
        "AbortFunctionCall" => AbortFunctionCall { serial: u(m, "serial") }.into(),
        "SubscribeEvent" => SubscribeEvent {
            serial: opt_serial(m),
            service_cookie: ServiceCookie(t.cookie(i(m, "svc"))),
            event: u(m, "ev"),
        }
        .into(),
        "UnsubscribeEvent" => UnsubscribeEvent { service_cookie: ServiceCookie(t.cookie(i(m, "svc"))), event: u(m, "ev") }.into(),
        "EmitEvent" => EmitEvent {
            service_cookie: ServiceCookie(t.cookie(i(m, "svc"))),
            event: u(m, "ev"),
            value: t.payload(i(m, "val")),
        }
        .into(),
        "QueryServiceVersion" => QueryServiceVersion { serial: u(m, "serial"), cookie: ServiceCookie(t.cookie(i(m, "cookie"))) }.into(),
        "QueryServiceInfo" => QueryServiceInfo { serial: u(m, "serial"), cookie: ServiceCookie(t.cookie(i(m, "cookie"))) }.into(),
        "SubscribeService" => SubscribeService { serial: u(m, "serial"), service_cookie: ServiceCookie(t.cookie(i(m, "svc"))) }.into(),
        "UnsubscribeService" => UnsubscribeService { service_cookie: ServiceCookie(t.cookie(i(m, "svc"))) }.into(),
        "SubscribeAllEvents" => SubscribeAllEvents { serial: opt_serial(m), service_cookie: ServiceCookie(t.cookie(i(m, "svc"))) }.into(),
        "UnsubscribeAllEvents" => {
            UnsubscribeAllEvents { serial: opt_serial(m), service_cookie: ServiceCookie(t.cookie(i(m, "svc"))) }.into()
        }
        "CreateChannel" => CreateChannel { serial: u(m, "serial"), end: endc(m) }.into(),
        "CloseChannelEnd" => {
            CloseChannelEnd { serial: u(m, "serial"), cookie: ChannelCookie(t.cookie(i(m, "cookie"))), end: end_of(m) }.into()
        }
        "ClaimChannelEnd" => {
            ClaimChannelEnd { serial: u(m, "serial"), cookie: ChannelCookie(t.cookie(i(m, "cookie"))), end: endc(m) }.into()
        }
        "SendItem" => SendItem { cookie: ChannelCookie(t.cookie(i(m, "cookie"))), value: t.payload(i(m, "val")) }.into(),
        "AddChannelCapacity" => AddChannelCapacity { cookie: ChannelCookie(t.cookie(i(m, "cookie"))), capacity: cap(m) }.into(),
        "Sync" => Sync { serial: u(m, "serial") }.into(),
        "CreateBusListener" => CreateBusListener { serial: u(m, "serial") }.into(),
        "DestroyBusListener" => {
            DestroyBusListener { serial: u(m, "serial"), cookie: BusListenerCookie(t.cookie(i(m, "cookie"))) }.into()
        }
        "AddBusListenerFilter" => {
            AddBusListenerFilter { cookie: BusListenerCookie(t.cookie(i(m, "cookie"))), filter: filter_of(t, &m["filter"]) }.into()
        }
        "RemoveBusListenerFilter" => {
            RemoveBusListenerFilter { cookie: BusListenerCookie(t.cookie(i(m, "cookie"))), filter: filter_of(t, &m["filter"]) }.into()
        }
        "ClearBusListenerFilters" => ClearBusListenerFilters { cookie: BusListenerCookie(t.cookie(i(m, "cookie"))) }.into(),
        "StartBusListener" => StartBusListener {
            serial: u(m, "serial"),
            cookie: BusListenerCookie(t.cookie(i(m, "cookie"))),
            scope: match s(m, "scope") {
                "Current" => BusListenerScope::Current,
                "New" => BusListenerScope::New,
                _ => BusListenerScope::All,
            },
        }
        .into(),
        "StopBusListener" => StopBusListener { serial: u(m, "serial"), cookie: BusListenerCookie(t.cookie(i(m, "cookie"))) }.into(),
        "RegisterIntrospection" => {
            let value = if m["ok"].as_bool().unwrap() {
                let set: HashSet<TypeId> = m["tids"].as_array().unwrap().iter().map(|x| TypeId(t.uuid(x.as_i64().unwrap()))).collect();
                SerializedValue::serialize(&set).unwrap()
            } else {
                SerializedValue::serialize("not a set of type ids").unwrap()
            };
            RegisterIntrospection { value }.into()
        }
        "QueryIntrospection" => QueryIntrospection { serial: u(m, "serial"), type_id: TypeId(t.uuid(i(m, "tid"))) }.into(),
        "QueryIntrospectionReply" => QueryIntrospectionReply {
            serial: u(m, "serial"),
            result: if s(m, "res") == "Ok" {
                QueryIntrospectionResult::Ok(t.payload(i(m, "val")))
            } else {
                QueryIntrospectionResult::Unavailable
            },
        }
        .into(),
        // broker-to-client kinds sent by a client (WrongKinds)
        "CreateObjectReply" => CreateObjectReply { serial: 0, result: CreateObjectResult::DuplicateObject }.into(),
        "ItemReceived" => ItemReceived { cookie: ChannelCookie(t.cookie(99)), value: t.payload(1) }.into(),
        "Connect" => Connect { version: 14, value: t.payload(1) }.into(),
        "ServiceDestroyed" => ServiceDestroyed { service_cookie: ServiceCookie(t.cookie(99)) }.into(),
        "EmitBusEvent" => EmitBusEvent {
            cookie: None,
            event: aldrin_core::BusEvent::ObjectCreated(aldrin_core::ObjectId::new(ObjectUuid(t.uuid(101)), ObjectCookie(t.cookie(99)))),
        }
        .into(),
        other => panic!("replay-broker: message kind {other} is not mapped"),
    }
}

/// real cookies issued since `from`, in order
fn created_since(items: &[Item], from: usize, out: &mut VecDeque<Uuid>) {
    for it in &items[from..] {
        if let Item::Hook(Record::Send { msg, .. }) = it {
            match msg {
                Message::CreateObjectReply(r) => {
                    if let CreateObjectResult::Ok(c) = r.result {
                        out.push_back(c.0)
                    }
                }
                Message::CreateServiceReply(r) => {
                    if let CreateServiceResult::Ok(c) = r.result {
                        out.push_back(c.0)
                    }
                }
                Message::CreateChannelReply(r) => out.push_back(r.cookie.0),
                Message::CreateBusListenerReply(r) => out.push_back(r.cookie.0),
                _ => {}
            }
        }
    }
}

fn one(behaviour: &J, rng: &mut Rng) -> (Vec<Item>, J) {
    let mut w = World::new();
    let mut t = Toks { cookies: HashMap::new(), unbound: 0 };
    let mut conn_of: HashMap<i64, usize> = HashMap::new();
    let mut ended: Vec<bool> = Vec::new();
    let mut pending = false;
    let mut scanned = 0usize;
    let mut real_created: VecDeque<Uuid> = VecDeque::new();
    let mut stuck = false;
    let mut sdb = false;
    let mut refused = 0u64;
    let mut inputs = 0u64;

    for act in behaviour.as_array().expect("behaviour") {
        match s(act, "a") {
            "enq" => {
                let ev = &act["ev"];
                inputs += 1;
                match s(ev, "t") {
                    "new" => {
                        let ver = u(ev, "ver");
                        match w.connect(rng, 1, ver, ver > 14, None) {
                            ConnectOutcome::Connected(n) => {
                                conn_of.insert(i(ev, "c"), n);
                                ended.push(false);
                            }
                            ConnectOutcome::Refused(_) => refused += 1,
                        }
                        // the handshake ran every task: the input is already handled
                    }
                    "msg" => {
                        if let Some(&n) = conn_of.get(&i(ev, "c")) {
                            let msg = message(&mut t, &ev["m"]);
                            w.send(n, msg);
                            w.pump_conn(n, 8);
                            pending = true;
                        }
                    }
                    "shut" => {
                        if let Some(&n) = conn_of.get(&i(ev, "c")) {
                            w.close_transport(n);
                            w.pump_conn(n, 8);
                            ended[n] = true;
                            pending = true;
                        }
                    }
                    "sdc" => {
                        if let Some(&n) = conn_of.get(&i(ev, "c")) {
                            let task = w.spawn_shutdown_conn_task(n);
                            w.exec.poll_task(task);
                            pending = true;
                        }
                    }
                    "sdb" => {
                        let task = w.spawn_shutdown_broker_task();
                        w.exec.poll_task(task);
                        sdb = true;
                        pending = true;
                    }
                    "sdi" => {
                        let task = w.spawn_shutdown_idle_task();
                        w.exec.poll_task(task);
                        pending = true;
                    }
                    other => panic!("replay-broker: input {other} is not mapped"),
                }
            }
            "dead" => {
                if let Some(&n) = conn_of.get(&i(act, "c")) {
                    w.drop_conn_task(n);
                    ended[n] = true;
                }
            }
            "deq" => {
                if pending {
                    pending = false;
                    if w.run(rng, STEP_BOUND) == RunOutcome::StepBound {
                        stuck = true;
                        break;
                    }
                }
                {
                    let items = w.items.borrow();
                    created_since(&items, scanned, &mut real_created);
                    scanned = items.len();
                }
                let k = i(act, "cookie");
                if k != 0 {
                    match real_created.pop_front() {
                        Some(c) => {
                            t.cookies.insert(k, c);
                        }
                        None => t.unbound += 1,
                    }
                }
            }
            other => panic!("replay-broker: action {other} is not mapped"),
        }
        if !w.broker_running() && pending {
            pending = false;
        }
    }
    if w.run(rng, STEP_BOUND) == RunOutcome::StepBound {
        stuck = true;
    }
    {
        let items = w.items.borrow();
        created_since(&items, scanned, &mut real_created);
    }
    let surplus = real_created.len() as u64;

    // end of run, as in fuzz-broker: every remaining connection ends one way or another, then idle shutdown
    for n in 0..w.conns.len() {
        if !ended[n] {
            // a connection task that has already returned is left alone: if the broker still has it
            // registered, that is for the observer to see
            if matches!(w.exec.state(w.conns[n].task), TaskState::Done) {
                ended[n] = true;
                continue;
            }
            match rng.below(3) {
                0 => {
                    w.send(n, Shutdown.into());
                }
                1 => w.close_transport(n),
                _ => w.spawn_shutdown_conn(n),
            }
            ended[n] = true;
        }
    }
    w.spawn_shutdown_idle();
    loop {
        if w.run(rng, STEP_BOUND) == RunOutcome::StepBound {
            stuck = true;
            break;
        }
        if w.answer_shutdowns(rng.chance(1, 3)) == 0 {
            break;
        }
    }
    let dropped_left = w.conns.iter().any(|c| c.task_dropped);
    let broker_done = matches!(w.broker_state(), TaskState::Done);
    let conn_tasks: Vec<J> = w
        .conns
        .iter()
        .map(|c| {
            json!({"c": c.id, "dropped": c.task_dropped,
                "done": matches!(w.exec.state(c.task), TaskState::Done),
                "res": match &*c.run_result.borrow() { Some(Ok(())) => "ok".to_string(), Some(Err(e)) => e.clone(), None => "none".to_string() }})
        })
        .collect();
    let panics = w.panics();
    for (_, name, msg) in &panics {
        w.marker(json!({"t": "panic", "task": name, "msg": msg}));
    }
    w.marker(json!({"t": "end", "brokerDone": broker_done, "droppedLeft": dropped_left,
        "sdb": sdb, "conns": conn_tasks, "stuck": stuck}));
    let summary = json!({"inputs": inputs, "stuck": stuck, "unbound": t.unbound, "surplus": surplus, "refused": refused,
        "panics": panics.iter().map(|p| format!("{}: {}", p.1, p.2)).collect::<Vec<_>>()});
    (w.finish(), summary)
}

fn main() {
    let mut input: Option<PathBuf> = None;
    let mut out: Option<PathBuf> = None;
    let mut seed = 1u64;
    let a: Vec<String> = std::env::args().collect();
    let mut k = 1;
    while k + 1 < a.len() {
        match a[k].as_str() {
            "--in" => input = Some(PathBuf::from(&a[k + 1])),
            "--out" => out = Some(PathBuf::from(&a[k + 1])),
            "--seed" => seed = a[k + 1].parse().expect("seed"),
            other => panic!("unknown argument {other}"),
        }
        k += 2;
    }
    install_panic_hook();
    let f = std::io::BufReader::new(std::fs::File::open(input.expect("--in")).expect("open"));
    let mut rng = Rng::new(seed);
    let mut lines = Vec::new();
    let (mut n, mut inputs, mut unbound, mut surplus, mut stuck, mut refused, mut panics) = (0u64, 0u64, 0u64, 0u64, 0u64, 0u64, 0u64);
    let mut flagged = Vec::new();
    for line in f.lines() {
        let line = line.expect("read");
        if line.trim().is_empty() {
            continue;
        }
        let b: J = serde_json::from_str(&line).expect("behaviour json");
        let mut run_rng = rng.fork();
        let (items, summary) = one(&b, &mut run_rng);
        let mut namer = Namer::new();
        lines.push(json!({"t": "reset", "run": n, "out": []}));
        lines.extend(build_trace(&mut namer, &items));
        inputs += summary["inputs"].as_u64().unwrap();
        unbound += summary["unbound"].as_u64().unwrap();
        surplus += summary["surplus"].as_u64().unwrap();
        refused += summary["refused"].as_u64().unwrap();
        let p = summary["panics"].as_array().unwrap().len() as u64;
        panics += p;
        if summary["stuck"] == true {
            stuck += 1;
        }
        if (summary["stuck"] == true || p > 0 || summary["unbound"].as_u64().unwrap() > 0) && flagged.len() < 20 {
            flagged.push(json!({"run": n, "summary": summary}));
        }
        n += 1;
    }
    vcore::write_ndjson(&out.expect("--out"), &lines).expect("write trace");
    println!(
        "{}",
        json!({"driver": "replay-broker", "behaviours": n, "records": lines.len(), "inputs": inputs, "unbound": unbound,
            "surplus": surplus, "refused": refused, "stuck": stuck, "panics": panics, "flagged": flagged})
    );
}
