//! Message generator and cookie pools shared by the broker-level drivers.

use aldrin_core::message::*;
use aldrin_core::{
    BusEvent, BusListenerCookie, BusListenerFilter, BusListenerScope, ChannelCookie, ChannelEnd,
    ChannelEndWithCapacity, ObjectCookie, ObjectId, ObjectUuid, SerializedValue, ServiceCookie,
    ServiceInfo, ServiceUuid, TypeId,
};
use bytes::BytesMut;
use std::collections::HashSet;
use uuid::Uuid;
use vcore::rng::Rng;

/// Builds a `SerializedValue` with arbitrary content bytes (possibly ill-formed) through the public
/// API: a `SendItem` frame is assembled by hand and parsed by the real message parser, which does
/// not look inside the value.
pub fn raw_value(content: &[u8]) -> SerializedValue {
    assert!(!content.is_empty());
    let total = 4 + 1 + 4 + content.len() + 16;
    let mut buf = BytesMut::with_capacity(total);
    buf.extend_from_slice(&(total as u32).to_le_bytes());
    buf.extend_from_slice(&[27u8]); // MessageKind::SendItem
    buf.extend_from_slice(&(content.len() as u32).to_le_bytes());
    buf.extend_from_slice(content);
    buf.extend_from_slice(&[0u8; 16]);
    match SendItem::deserialize_message(buf) {
        Ok(m) => m.value,
        Err(e) => panic!("harness: cannot build raw value: {e:?}"),
    }
}

#[derive(Debug, Clone, Copy, PartialEq, Eq)]
pub enum Profile {
    Registry,
    Calls,
    Events,
    Channels,
    Listeners,
    Intro,
    Mixed,
    Abuse,
}

impl Profile {
    pub fn parse(s: &str) -> Option<Self> {
        Some(match s {
            "registry" => Self::Registry,
            "calls" => Self::Calls,
            "events" => Self::Events,
            "channels" => Self::Channels,
            "listeners" => Self::Listeners,
            "intro" => Self::Intro,
            "mixed" => Self::Mixed,
            "abuse" => Self::Abuse,
            _ => return None,
        })
    }
}

#[derive(Debug, Clone, Copy, PartialEq, Eq)]
pub enum K {
    CreateObject,
    DestroyObject,
    CreateService,
    CreateService2,
    DestroyService,
    CallFunction,
    CallFunction2,
    CallFunctionReply,
    AbortFunctionCall,
    SubscribeEvent,
    UnsubscribeEvent,
    EmitEvent,
    SubscribeService,
    UnsubscribeService,
    SubscribeAllEvents,
    UnsubscribeAllEvents,
    QueryServiceVersion,
    QueryServiceInfo,
    CreateChannel,
    CloseChannelEnd,
    ClaimChannelEnd,
    SendItem,
    AddChannelCapacity,
    Sync,
    CreateBusListener,
    DestroyBusListener,
    AddFilter,
    RemoveFilter,
    ClearFilters,
    StartBusListener,
    StopBusListener,
    RegisterIntrospection,
    QueryIntrospection,
    QueryIntrospectionReply,
    WrongDirection,
}

fn table(p: Profile) -> Vec<(K, u32)> {
    use K::*;
    let registry = vec![
        (CreateObject, 8),
        (DestroyObject, 4),
        (CreateService, 5),
        (CreateService2, 4),
        (DestroyService, 3),
        (QueryServiceVersion, 2),
        (QueryServiceInfo, 2),
        (Sync, 1),
    ];
    let calls = vec![
        (CallFunction, 6),
        (CallFunction2, 5),
        (CallFunctionReply, 8),
        (AbortFunctionCall, 4),
    ];
    let events = vec![
        (SubscribeEvent, 6),
        (UnsubscribeEvent, 4),
        (EmitEvent, 12),
        (SubscribeService, 3),
        (UnsubscribeService, 2),
        (SubscribeAllEvents, 4),
        (UnsubscribeAllEvents, 3),
    ];
    let channels = vec![
        (CreateChannel, 5),
        (CloseChannelEnd, 4),
        (ClaimChannelEnd, 6),
        (SendItem, 12),
        (AddChannelCapacity, 6),
    ];
    let listeners = vec![
        (CreateBusListener, 4),
        (DestroyBusListener, 2),
        (AddFilter, 10),
        (RemoveFilter, 4),
        (ClearFilters, 1),
        (StartBusListener, 9),
        (StopBusListener, 3),
    ];
    let intro = vec![
        (RegisterIntrospection, 4),
        (QueryIntrospection, 5),
        (QueryIntrospectionReply, 6),
    ];
    let scale = |v: &Vec<(K, u32)>, f: u32| v.iter().map(|&(k, w)| (k, w * f)).collect::<Vec<_>>();
    match p {
        Profile::Registry => registry,
        Profile::Calls => [scale(&registry, 1), scale(&calls, 4)].concat(),
        Profile::Events => [scale(&registry, 1), vec![(CreateService2, 8)], scale(&events, 4)].concat(),
        Profile::Channels => [scale(&channels, 4), vec![(Sync, 1)]].concat(),
        Profile::Listeners => [scale(&registry, 2), scale(&listeners, 3)].concat(),
        Profile::Intro => [scale(&registry, 1), scale(&intro, 4)].concat(),
        Profile::Mixed => [registry, calls, events, channels, listeners, intro].concat(),
        Profile::Abuse => [
            registry,
            calls,
            events,
            channels,
            listeners,
            intro,
            vec![(WrongDirection, 25)],
        ]
        .concat(),
    }
}

/// What is currently live in the broker, taken from the latest state dump of the hook. The
/// generator uses it to produce mostly meaningful traffic (own objects, live services, pending
/// calls, claimable channel ends, started listeners); stale, foreign and never-issued cookies are
/// still mixed in from the pools.
#[derive(Default)]
pub struct View {
    /// (cookie, owner connection id)
    pub objs: Vec<(ObjectCookie, usize)>,
    /// (cookie, owner connection id)
    pub svcs: Vec<(ServiceCookie, usize)>,
    /// (cookie, sender owner (usize::MAX unclaimed, usize::MAX-1 closed), receiver owner likewise)
    pub chans: Vec<(ChannelCookie, usize, usize)>,
    /// (cookie, owner, started)
    pub lsts: Vec<(BusListenerCookie, usize, bool)>,
    /// (broker serial, callee connection id)
    pub calls: Vec<(u32, usize)>,
    /// (caller connection id, caller serial)
    pub my_calls: Vec<(usize, u32)>,
    /// (query serial, queried connection id)
    pub queries: Vec<(u32, usize)>,
    /// (service cookie, owner connection id, event id) with at least one subscriber
    pub subscribed: Vec<(ServiceCookie, usize, u32)>,
    /// (service cookie, subscriber connection id, event id)
    pub subscriptions: Vec<(ServiceCookie, usize, u32)>,
    /// (caller connection id, caller serial, callee connection id, broker serial)
    pub call_links: Vec<(usize, u32, usize, u32)>,
    /// (listener owner connection id, started)
    pub listener_owners: Vec<(usize, bool)>,
}

pub const UNCLAIMED: usize = usize::MAX;
pub const CLOSED: usize = usize::MAX - 1;

impl View {
    pub fn from_dump(d: &aldrin_broker::verif::Dump) -> Self {
        use aldrin_broker::verif::DumpChannelEnd as E;
        let end = |e: &E| match e {
            E::Unclaimed => UNCLAIMED,
            E::Closed => CLOSED,
            E::Claimed { owner, .. } => *owner,
        };
        let owner_of_obj = |u: &ObjectUuid| d.objs.iter().find(|o| o.uuid == *u).map(|o| o.conn);
        Self {
            objs: d.objs.iter().map(|o| (o.cookie, o.conn)).collect(),
            svcs: d
                .svcs
                .iter()
                .filter_map(|s| owner_of_obj(&s.object_uuid).map(|c| (s.cookie, c)))
                .collect(),
            chans: d.channels.iter().map(|c| (c.cookie, end(&c.sender), end(&c.receiver))).collect(),
            lsts: d.bus_listeners.iter().map(|l| (l.cookie, l.conn, l.scope.is_some())).collect(),
            calls: d
                .calls
                .iter()
                .filter_map(|c| owner_of_obj(&c.callee_obj).map(|callee| (c.serial, callee)))
                .collect(),
            my_calls: d.calls.iter().filter(|c| !c.aborted).map(|c| (c.caller, c.caller_serial)).collect(),
            queries: d
                .introspection
                .iter()
                .filter_map(|e| e.queried.map(|(c, s)| (s, c)))
                .collect(),
            subscribed: d
                .svcs
                .iter()
                .filter_map(|s| owner_of_obj(&s.object_uuid).map(|o| (s, o)))
                .flat_map(|(s, o)| {
                    let mut v: Vec<(ServiceCookie, usize, u32)> = s.events.iter().map(|(e, _)| (s.cookie, o, *e)).collect();
                    if !s.all_events.is_empty() {
                        v.push((s.cookie, o, 0));
                        v.push((s.cookie, o, 1));
                    }
                    v
                })
                .collect(),
            call_links: d
                .conns
                .iter()
                .flat_map(|c| c.calls.iter().map(move |&(cs, bs, callee)| (c.id, cs, callee, bs)))
                .collect(),
            listener_owners: d.bus_listeners.iter().map(|l| (l.conn, l.scope.is_some())).collect(),
            subscriptions: d
                .svcs
                .iter()
                .flat_map(|s| s.events.iter().flat_map(move |(e, cs)| cs.iter().map(move |c| (s.cookie, *c, *e))))
                .collect(),
        }
    }
}

/// The entity the next few messages concentrate on (deep interactions on one service / channel
/// need several messages about the *same* entity from *different* connections).
#[derive(Default, Clone, Copy)]
pub struct Focus {
    pub svc: Option<ServiceCookie>,
    pub chan: Option<ChannelCookie>,
    pub left: u32,
}

pub struct Pools {
    pub focus: Focus,
    pub view: View,
    /// broker connection id of each raw connection
    pub ids: Vec<usize>,
    pub obj_uuids: Vec<ObjectUuid>,
    pub svc_uuids: Vec<ServiceUuid>,
    pub type_ids: Vec<TypeId>,
    pub obj_cookies: Vec<ObjectCookie>,
    pub svc_cookies: Vec<ServiceCookie>,
    pub chan_cookies: Vec<ChannelCookie>,
    pub lst_cookies: Vec<BusListenerCookie>,
    pub never: Vec<Uuid>,
    /// per raw connection: broker serials of calls forwarded to it
    pub fwd: Vec<Vec<u32>>,
    /// per raw connection: serials of introspection queries sent to it
    pub qi: Vec<Vec<u32>>,
    /// per raw connection: next client serial
    pub next_serial: Vec<u32>,
    pub values: Vec<SerializedValue>,
    pub garbage: Vec<SerializedValue>,
    pub wild: bool,
    seen: HashSet<Uuid>,
}

#[derive(Debug, Clone, Copy)]
enum ChanWant {
    Claimable,
    Own,
    OwnSenderEstablished,
    OwnReceiver,
}

pub const CAPS: [u32; 10] = [0, 1, 2, 3, 4, 5, 6, 1 << 31, u32::MAX - 1, u32::MAX];

impl Pools {
    pub fn new(rng: &mut Rng, wild: bool) -> Self {
        let u = |rng: &mut Rng| Uuid::from_u128(((rng.next_u64() as u128) << 64) | rng.next_u64() as u128);
        let values = vec![
            SerializedValue::serialize(0u8).unwrap(),
            SerializedValue::serialize(1u32).unwrap(),
            SerializedValue::serialize(300u32).unwrap(),
            SerializedValue::serialize(vec![1u32, 2, 70000]).unwrap(),
            SerializedValue::serialize("hello".to_string()).unwrap(),
            SerializedValue::serialize(Some(vec![Some(1i64), None])).unwrap(),
            SerializedValue::serialize(()).unwrap(),
        ];
        let garbage = vec![
            raw_value(&[0xff]),
            raw_value(&[13, 200]),       // truncated
            raw_value(&[39, 5, 1, 2]),   // vec1 with missing elements
            raw_value(&[0, 0, 0]),       // trailing bytes
            raw_value(&[250, 1, 2, 3]),  // unknown kind
        ];
        Self {
            obj_uuids: (0..3).map(|_| ObjectUuid(u(rng))).collect(),
            svc_uuids: (0..2).map(|_| ServiceUuid(u(rng))).collect(),
            type_ids: (0..2).map(|_| TypeId(u(rng))).collect(),
            obj_cookies: vec![],
            svc_cookies: vec![],
            chan_cookies: vec![],
            lst_cookies: vec![],
            never: (0..2).map(|_| u(rng)).collect(),
            fwd: vec![],
            qi: vec![],
            next_serial: vec![],
            values,
            garbage,
            wild,
            seen: HashSet::new(),
            view: View::default(),
            focus: Focus::default(),
            ids: vec![],
        }
    }

    /// probability (percent) of picking a cookie from the live view rather than from the pools
    const LIVE_PCT: u64 = 72;

    /// Re-draws the focus every dozen messages.
    pub fn tick_focus(&mut self, rng: &mut Rng) {
        if self.focus.left == 0 {
            self.focus = Focus {
                svc: if self.view.svcs.is_empty() { None } else { Some(rng.pick(&self.view.svcs).0) },
                chan: if self.view.chans.is_empty() { None } else { Some(rng.pick(&self.view.chans).0) },
                left: 6 + rng.below(12) as u32,
            };
        } else {
            self.focus.left -= 1;
        }
    }

    fn me(&self, i: usize) -> usize {
        self.ids.get(i).copied().unwrap_or(usize::MAX - 7)
    }

    pub fn add_conn_id(&mut self, id: usize) {
        self.ids.push(id);
        self.add_conn();
    }

    pub fn add_conn(&mut self) {
        self.fwd.push(vec![]);
        self.qi.push(vec![]);
        self.next_serial.push(0);
    }

    /// Learns cookies and serials from what raw connection `i` received.
    pub fn learn(&mut self, i: usize, msgs: &[Message]) {
        for m in msgs {
            match m {
                Message::CreateObjectReply(CreateObjectReply { result: CreateObjectResult::Ok(c), .. }) => {
                    if self.seen.insert(c.0) {
                        self.obj_cookies.push(*c);
                    }
                }
                Message::CreateServiceReply(CreateServiceReply { result: CreateServiceResult::Ok(c), .. }) => {
                    if self.seen.insert(c.0) {
                        self.svc_cookies.push(*c);
                    }
                }
                Message::CreateChannelReply(r) => {
                    if self.seen.insert(r.cookie.0) {
                        self.chan_cookies.push(r.cookie);
                    }
                }
                Message::CreateBusListenerReply(r) => {
                    if self.seen.insert(r.cookie.0) {
                        self.lst_cookies.push(r.cookie);
                    }
                }
                Message::CallFunction(c) => self.fwd[i].push(c.serial),
                Message::CallFunction2(c) => self.fwd[i].push(c.serial),
                Message::QueryIntrospection(q) => self.qi[i].push(q.serial),
                _ => {}
            }
        }
    }

    fn cookie(&self, rng: &mut Rng, pool: &[Uuid]) -> Uuid {
        let r = rng.below(100);
        // recent cookies are more likely to be live
        if !pool.is_empty() && r < 80 {
            let n = pool.len();
            let k = if rng.chance(2, 3) { n - 1 - rng.below(n.min(3) as u64) as usize } else { rng.below(n as u64) as usize };
            pool[k]
        } else if self.wild && r < 90 {
            // a cookie of another kind
            let all: Vec<Uuid> = self
                .obj_cookies
                .iter()
                .map(|c| c.0)
                .chain(self.svc_cookies.iter().map(|c| c.0))
                .chain(self.chan_cookies.iter().map(|c| c.0))
                .chain(self.lst_cookies.iter().map(|c| c.0))
                .collect();
            if all.is_empty() {
                self.never[0]
            } else {
                *rng.pick(&all)
            }
        } else {
            *rng.pick(&self.never)
        }
    }

    /// a live object, preferably (own = true) one of connection `i`
    fn obj_live(&self, rng: &mut Rng, i: usize, own: bool) -> ObjectCookie {
        let me = self.me(i);
        let mine: Vec<ObjectCookie> = self.view.objs.iter().filter(|o| (o.1 == me) == own).map(|o| o.0).collect();
        if !mine.is_empty() && rng.below(100) < Self::LIVE_PCT {
            *rng.pick(&mine)
        } else {
            self.obj(rng)
        }
    }

    fn svc_live(&self, rng: &mut Rng, i: usize, own: Option<bool>) -> ServiceCookie {
        let me = self.me(i);
        let cands: Vec<ServiceCookie> = self
            .view
            .svcs
            .iter()
            .filter(|s| own.map(|o| (s.1 == me) == o).unwrap_or(true))
            .map(|s| s.0)
            .collect();
        if let Some(f) = self.focus.svc {
            if cands.contains(&f) && rng.chance(3, 4) {
                return f;
            }
        }
        if !cands.is_empty() && rng.below(100) < Self::LIVE_PCT {
            *rng.pick(&cands)
        } else {
            self.svc(rng)
        }
    }

    fn lst_live(&self, rng: &mut Rng, i: usize, started: Option<bool>) -> BusListenerCookie {
        let me = self.me(i);
        let cands: Vec<BusListenerCookie> = self
            .view
            .lsts
            .iter()
            .filter(|l| l.1 == me && started.map(|s| l.2 == s).unwrap_or(true))
            .map(|l| l.0)
            .collect();
        if !cands.is_empty() && rng.below(100) < Self::LIVE_PCT {
            *rng.pick(&cands)
        } else {
            self.lst(rng)
        }
    }

    /// a channel end: `claimable` = an unclaimed end, otherwise an end owned by `i`
    fn chan_live(&self, rng: &mut Rng, i: usize, want: ChanWant) -> (ChannelCookie, ChannelEnd) {
        let me = self.me(i);
        let mut cands: Vec<(ChannelCookie, ChannelEnd)> = Vec::new();
        for &(k, s, r) in &self.view.chans {
            match want {
                ChanWant::Claimable => {
                    if s == UNCLAIMED {
                        cands.push((k, ChannelEnd::Sender));
                    }
                    if r == UNCLAIMED {
                        cands.push((k, ChannelEnd::Receiver));
                    }
                }
                ChanWant::Own => {
                    if s == me {
                        cands.push((k, ChannelEnd::Sender));
                    }
                    if r == me {
                        cands.push((k, ChannelEnd::Receiver));
                    }
                }
                ChanWant::OwnSenderEstablished => {
                    if s == me && r < CLOSED {
                        cands.push((k, ChannelEnd::Sender));
                    }
                }
                ChanWant::OwnReceiver => {
                    if r == me {
                        cands.push((k, ChannelEnd::Receiver));
                    }
                }
            }
        }
        if let Some(f) = self.focus.chan {
            let fc: Vec<(ChannelCookie, ChannelEnd)> = cands.iter().copied().filter(|c| c.0 == f).collect();
            if !fc.is_empty() && rng.chance(3, 4) {
                return *rng.pick(&fc);
            }
        }
        if !cands.is_empty() && rng.below(100) < Self::LIVE_PCT + 10 {
            *rng.pick(&cands)
        } else {
            (
                self.chan(rng),
                if rng.chance(1, 2) { ChannelEnd::Sender } else { ChannelEnd::Receiver },
            )
        }
    }

    fn obj(&self, rng: &mut Rng) -> ObjectCookie {
        let p: Vec<Uuid> = self.obj_cookies.iter().map(|c| c.0).collect();
        ObjectCookie(self.cookie(rng, &p))
    }

    fn svc(&self, rng: &mut Rng) -> ServiceCookie {
        let p: Vec<Uuid> = self.svc_cookies.iter().map(|c| c.0).collect();
        ServiceCookie(self.cookie(rng, &p))
    }

    fn chan(&self, rng: &mut Rng) -> ChannelCookie {
        let p: Vec<Uuid> = self.chan_cookies.iter().map(|c| c.0).collect();
        ChannelCookie(self.cookie(rng, &p))
    }

    fn lst(&self, rng: &mut Rng) -> BusListenerCookie {
        let p: Vec<Uuid> = self.lst_cookies.iter().map(|c| c.0).collect();
        BusListenerCookie(self.cookie(rng, &p))
    }

    fn serial(&mut self, rng: &mut Rng, i: usize) -> u32 {
        // mostly fresh, sometimes reused or extreme
        let r = rng.below(100);
        if r < 75 {
            let s = self.next_serial[i];
            self.next_serial[i] = s.wrapping_add(1);
            s
        } else if r < 93 {
            rng.below(self.next_serial[i].max(1) as u64 + 1) as u32
        } else {
            *rng.pick(&[u32::MAX, u32::MAX - 1, 1 << 31])
        }
    }

    fn value(&self, rng: &mut Rng) -> SerializedValue {
        if self.wild && rng.chance(1, 8) {
            rng.pick(&self.garbage).clone()
        } else {
            rng.pick(&self.values).clone()
        }
    }

    fn cap(&self, rng: &mut Rng) -> u32 {
        if rng.chance(3, 4) {
            *rng.pick(&CAPS[..7])
        } else {
            *rng.pick(&CAPS)
        }
    }

    fn filter(&self, rng: &mut Rng) -> BusListenerFilter {
        let o = *rng.pick(&self.obj_uuids);
        let s = *rng.pick(&self.svc_uuids);
        match rng.below(6) {
            0 => BusListenerFilter::any_object(),
            1 => BusListenerFilter::object(o),
            2 => BusListenerFilter::any_object_any_service(),
            3 => BusListenerFilter::specific_object_any_service(o),
            4 => BusListenerFilter::any_object_specific_service(s),
            _ => BusListenerFilter::specific_object_and_service(o, s),
        }
    }

    pub fn gen(&mut self, rng: &mut Rng, i: usize, profile: Profile) -> Message {
        let tab = table(profile);
        let total: u32 = tab.iter().map(|x| x.1).sum();
        let mut kind = tab[0].0;
        for _try in 0..6 {
            let mut r = rng.below(total as u64) as u32;
            for &(k, w) in &tab {
                if r < w {
                    kind = k;
                    break;
                }
                r -= w;
            }
            // mostly skip requests that cannot be meaningful in the current state
            if self.feasible(i, kind) || rng.chance(1, 8) {
                break;
            }
        }
        self.gen_kind(rng, i, kind)
    }

    /// A message (and the raw connection that sends it) that makes the broker send something to
    /// the connection `dead` (whose task was just dropped, which the broker does not know yet):
    /// the failed-send paths of the handlers are where cleanup bugs hide.
    pub fn gen_targeting(&mut self, rng: &mut Rng, dead: usize) -> Option<(usize, Message)> {
        let idx_of = |id: usize, ids: &Vec<usize>| ids.iter().rposition(|x| *x == id);
        let v = &self.view;
        let mut opts: Vec<(usize, Message)> = Vec::new();
        // the caller aborts a call the dead connection has to serve; the dead one's callee replies
        for &(caller, cs, callee, bs) in &v.call_links {
            if callee == dead {
                if let Some(i) = idx_of(caller, &self.ids) {
                    opts.push((i, AbortFunctionCall { serial: cs }.into()));
                }
            }
            if caller == dead {
                if let Some(i) = idx_of(callee, &self.ids) {
                    opts.push((i, CallFunctionReply { serial: bs, result: CallFunctionResult::Ok(self.values[1].clone()) }.into()));
                }
            }
        }
        // somebody calls a service of the dead connection / subscribes to it / emits to it
        for &(svc, owner) in &v.svcs {
            if owner == dead {
                for (i, id) in self.ids.iter().enumerate() {
                    if *id != dead {
                        opts.push((i, CallFunction { serial: self.next_serial[i].wrapping_add(40), service_cookie: svc, function: 0, value: self.values[0].clone() }.into()));
                        opts.push((i, SubscribeEvent { serial: Some(self.next_serial[i].wrapping_add(41)), service_cookie: svc, event: 0 }.into()));
                        break;
                    }
                }
            }
        }
        for &(svc, sub, ev) in &v.subscriptions {
            if sub == dead {
                if let Some(&(_, owner)) = v.svcs.iter().find(|x| x.0 == svc) {
                    if let Some(i) = idx_of(owner, &self.ids) {
                        opts.push((i, EmitEvent { service_cookie: svc, event: ev, value: self.values[1].clone() }.into()));
                        opts.push((i, DestroyService { serial: self.next_serial[i].wrapping_add(42), cookie: svc }.into()));
                    }
                }
            }
        }
        // channel traffic towards the dead connection
        for &(k, s, r) in &v.chans {
            if r == dead && s < CLOSED {
                if let Some(i) = idx_of(s, &self.ids) {
                    opts.push((i, SendItem { cookie: k, value: self.values[1].clone() }.into()));
                    opts.push((i, CloseChannelEnd { serial: self.next_serial[i].wrapping_add(43), cookie: k, end: ChannelEnd::Sender }.into()));
                }
            }
            if s == dead && r < CLOSED {
                if let Some(i) = idx_of(r, &self.ids) {
                    opts.push((i, AddChannelCapacity { cookie: k, capacity: 3 }.into()));
                    opts.push((i, CloseChannelEnd { serial: self.next_serial[i].wrapping_add(44), cookie: k, end: ChannelEnd::Receiver }.into()));
                }
            }
            if (s == dead && r == UNCLAIMED) || (r == dead && s == UNCLAIMED) {
                for (i, id) in self.ids.iter().enumerate() {
                    if *id != dead {
                        let end = if s == UNCLAIMED { ChannelEndWithCapacity::Sender } else { ChannelEndWithCapacity::Receiver(2) };
                        opts.push((i, ClaimChannelEnd { serial: self.next_serial[i].wrapping_add(45), cookie: k, end }.into()));
                        break;
                    }
                }
            }
        }
        // a bus event for a listener of the dead connection
        if v.listener_owners.iter().any(|l| l.0 == dead && l.1) {
            for (i, id) in self.ids.iter().enumerate() {
                if *id != dead {
                    opts.push((i, CreateObject { serial: self.next_serial[i].wrapping_add(46), uuid: *rng.pick(&self.obj_uuids) }.into()));
                    break;
                }
            }
        }
        if opts.is_empty() {
            None
        } else {
            let n = opts.len();
            Some(opts.swap_remove(rng.below(n as u64) as usize))
        }
    }

    /// Requests of connection `i` itself whose handler replies first and changes state second: with
    /// the connection's task dropped while they are queued, the reply fails half-way through.
    pub fn gen_own_requests(&mut self, rng: &mut Rng, i: usize) -> Vec<Message> {
        let kinds = [
            K::CreateObject,
            K::CreateService,
            K::CreateService2,
            K::DestroyObject,
            K::DestroyService,
            K::CreateChannel,
            K::ClaimChannelEnd,
            K::CloseChannelEnd,
            K::SubscribeEvent,
            K::SubscribeAllEvents,
            K::SubscribeService,
            K::CreateBusListener,
            K::StartBusListener,
            K::CallFunction,
            K::SendItem,
        ];
        let n = 1 + rng.below(3);
        let mut out = Vec::new();
        for _ in 0..n {
            for _try in 0..6 {
                let k = *rng.pick(&kinds);
                if self.feasible(i, k) {
                    out.push(self.gen_kind(rng, i, k));
                    break;
                }
            }
        }
        out
    }

    fn feasible(&self, i: usize, kind: K) -> bool {
        let me = self.me(i);
        let v = &self.view;
        match kind {
            K::CreateService | K::CreateService2 | K::DestroyObject => v.objs.iter().any(|o| o.1 == me),
            K::DestroyService | K::EmitEvent => v.svcs.iter().any(|x| x.1 == me),
            K::CallFunction
            | K::CallFunction2
            | K::SubscribeEvent
            | K::UnsubscribeEvent
            | K::SubscribeService
            | K::UnsubscribeService
            | K::SubscribeAllEvents
            | K::UnsubscribeAllEvents
            | K::QueryServiceVersion
            | K::QueryServiceInfo => !v.svcs.is_empty(),
            K::CallFunctionReply => v.calls.iter().any(|c| c.1 == me),
            K::AbortFunctionCall => v.my_calls.iter().any(|c| c.0 == me),
            K::CloseChannelEnd | K::ClaimChannelEnd => !v.chans.is_empty(),
            K::SendItem => v.chans.iter().any(|c| c.1 == me),
            K::AddChannelCapacity => v.chans.iter().any(|c| c.2 == me),
            K::DestroyBusListener | K::AddFilter | K::RemoveFilter | K::ClearFilters => v.lsts.iter().any(|l| l.1 == me),
            K::StartBusListener => v.lsts.iter().any(|l| l.1 == me && !l.2),
            K::StopBusListener => v.lsts.iter().any(|l| l.1 == me && l.2),
            K::QueryIntrospectionReply => v.queries.iter().any(|q| q.1 == me),
            _ => true,
        }
    }

    pub fn gen_kind(&mut self, rng: &mut Rng, i: usize, kind: K) -> Message {
        let serial = self.serial(rng, i);
        match kind {
            K::CreateObject => CreateObject { serial, uuid: *rng.pick(&self.obj_uuids) }.into(),
            K::DestroyObject => DestroyObject { serial, cookie: self.obj_live(rng, i, true) }.into(),
            K::CreateService => CreateService {
                serial,
                object_cookie: self.obj_live(rng, i, true),
                uuid: *rng.pick(&self.svc_uuids),
                version: rng.below(3) as u32,
            }
            .into(),
            K::CreateService2 => {
                let value = if self.wild && rng.chance(1, 6) {
                    self.value(rng)
                } else {
                    let mut info = ServiceInfo::new(rng.below(3) as u32);
                    if rng.chance(1, 2) {
                        info = info.set_type_id(*rng.pick(&self.type_ids));
                    }
                    match rng.below(6) {
                        0 => {}
                        1 => info = info.set_subscribe_all(false),
                        _ => info = info.set_subscribe_all(true),
                    }
                    SerializedValue::serialize(info).unwrap()
                };
                CreateService2 {
                    serial,
                    object_cookie: self.obj_live(rng, i, true),
                    uuid: *rng.pick(&self.svc_uuids),
                    value,
                }
                .into()
            }
            K::DestroyService => DestroyService { serial, cookie: self.svc_live(rng, i, Some(true)) }.into(),
            K::CallFunction => CallFunction {
                serial,
                service_cookie: self.svc_live(rng, i, None),
                function: rng.below(3) as u32,
                value: self.value(rng),
            }
            .into(),
            K::CallFunction2 => CallFunction2 {
                serial,
                service_cookie: self.svc_live(rng, i, None),
                function: rng.below(3) as u32,
                version: if rng.chance(1, 2) { Some(rng.below(3) as u32) } else { None },
                value: self.value(rng),
            }
            .into(),
            K::CallFunctionReply => {
                let serial = self.fwd_serial(rng, i);
                let result = match rng.below(8) {
                    0 | 1 | 2 => CallFunctionResult::Ok(self.value(rng)),
                    3 => CallFunctionResult::Err(self.value(rng)),
                    4 => CallFunctionResult::Aborted,
                    5 => CallFunctionResult::InvalidFunction,
                    6 => CallFunctionResult::InvalidArgs,
                    _ => CallFunctionResult::InvalidService,
                };
                CallFunctionReply { serial, result }.into()
            }
            K::AbortFunctionCall => AbortFunctionCall { serial: self.recent_serial(rng, i) }.into(),
            K::SubscribeEvent => SubscribeEvent {
                serial: if self.wild && rng.chance(1, 10) { None } else { Some(serial) },
                service_cookie: self.svc_live(rng, i, None),
                event: rng.below(3) as u32,
            }
            .into(),
            K::UnsubscribeEvent => {
                let me = self.me(i);
                let mine: Vec<(ServiceCookie, u32)> = self.view.subscriptions.iter().filter(|x| x.1 == me).map(|x| (x.0, x.2)).collect();
                let (service_cookie, event) = if !mine.is_empty() && rng.chance(3, 4) {
                    *rng.pick(&mine)
                } else {
                    (self.svc_live(rng, i, None), rng.below(3) as u32)
                };
                UnsubscribeEvent { service_cookie, event }.into()
            }
            K::EmitEvent => {
                let me = self.me(i);
                let mine: Vec<(ServiceCookie, u32)> = self.view.subscribed.iter().filter(|x| x.1 == me).map(|x| (x.0, x.2)).collect();
                let (service_cookie, event) = if !mine.is_empty() && rng.chance(3, 4) {
                    *rng.pick(&mine)
                } else {
                    (self.svc_live(rng, i, Some(true)), rng.below(3) as u32)
                };
                EmitEvent { service_cookie, event, value: self.value(rng) }.into()
            }
            K::SubscribeService => SubscribeService { serial, service_cookie: self.svc_live(rng, i, None) }.into(),
            K::UnsubscribeService => UnsubscribeService { service_cookie: self.svc_live(rng, i, None) }.into(),
            K::SubscribeAllEvents => SubscribeAllEvents {
                serial: if self.wild && rng.chance(1, 10) { None } else { Some(serial) },
                service_cookie: self.svc_live(rng, i, None),
            }
            .into(),
            K::UnsubscribeAllEvents => UnsubscribeAllEvents {
                serial: if rng.chance(1, 4) { None } else { Some(serial) },
                service_cookie: self.svc_live(rng, i, None),
            }
            .into(),
            K::QueryServiceVersion => QueryServiceVersion { serial, cookie: self.svc_live(rng, i, None) }.into(),
            K::QueryServiceInfo => QueryServiceInfo { serial, cookie: self.svc_live(rng, i, None) }.into(),
            K::CreateChannel => CreateChannel {
                serial,
                end: if rng.chance(1, 2) {
                    ChannelEndWithCapacity::Sender
                } else {
                    ChannelEndWithCapacity::Receiver(self.cap(rng))
                },
            }
            .into(),
            K::CloseChannelEnd => {
                let want = if rng.chance(3, 4) { ChanWant::Own } else { ChanWant::Claimable };
                let (cookie, end) = self.chan_live(rng, i, want);
                CloseChannelEnd { serial, cookie, end }.into()
            }
            K::ClaimChannelEnd => {
                let (cookie, end) = self.chan_live(rng, i, ChanWant::Claimable);
                ClaimChannelEnd {
                    serial,
                    cookie,
                    end: match end {
                        ChannelEnd::Sender => ChannelEndWithCapacity::Sender,
                        ChannelEnd::Receiver => ChannelEndWithCapacity::Receiver(self.cap(rng)),
                    },
                }
                .into()
            }
            K::SendItem => {
                let (cookie, _) = self.chan_live(rng, i, ChanWant::OwnSenderEstablished);
                SendItem { cookie, value: self.value(rng) }.into()
            }
            K::AddChannelCapacity => {
                let (cookie, _) = self.chan_live(rng, i, ChanWant::OwnReceiver);
                AddChannelCapacity { cookie, capacity: self.cap(rng) }.into()
            }
            K::Sync => Sync { serial }.into(),
            K::CreateBusListener => CreateBusListener { serial }.into(),
            K::DestroyBusListener => DestroyBusListener { serial, cookie: self.lst_live(rng, i, None) }.into(),
            K::AddFilter => AddBusListenerFilter { cookie: self.lst_live(rng, i, None), filter: self.filter(rng) }.into(),
            K::RemoveFilter => RemoveBusListenerFilter { cookie: self.lst_live(rng, i, None), filter: self.filter(rng) }.into(),
            K::ClearFilters => ClearBusListenerFilters { cookie: self.lst_live(rng, i, None) }.into(),
            K::StartBusListener => StartBusListener {
                serial,
                cookie: self.lst_live(rng, i, Some(false)),
                scope: *rng.pick(&[BusListenerScope::Current, BusListenerScope::New, BusListenerScope::All]),
            }
            .into(),
            K::StopBusListener => StopBusListener { serial, cookie: self.lst_live(rng, i, Some(true)) }.into(),
            K::RegisterIntrospection => {
                let value = if self.wild && rng.chance(1, 5) {
                    self.value(rng)
                } else {
                    let mut set = HashSet::new();
                    for t in &self.type_ids {
                        if rng.chance(2, 3) {
                            set.insert(*t);
                        }
                    }
                    SerializedValue::serialize(set).unwrap()
                };
                RegisterIntrospection { value }.into()
            }
            K::QueryIntrospection => QueryIntrospection { serial, type_id: *rng.pick(&self.type_ids) }.into(),
            K::QueryIntrospectionReply => {
                let me = self.me(i);
                let asked: Vec<u32> = self.view.queries.iter().filter(|q| q.1 == me).map(|q| q.0).collect();
                let serial = if !asked.is_empty() && rng.chance(4, 5) {
                    *rng.pick(&asked)
                } else if !self.qi[i].is_empty() && rng.chance(4, 5) {
                    *rng.pick(&self.qi[i])
                } else {
                    rng.below(4) as u32
                };
                QueryIntrospectionReply {
                    serial,
                    result: if rng.chance(2, 3) {
                        QueryIntrospectionResult::Ok(self.value(rng))
                    } else {
                        QueryIntrospectionResult::Unavailable
                    },
                }
                .into()
            }
            K::WrongDirection => self.wrong_direction(rng, serial),
        }
    }

    fn fwd_serial(&mut self, rng: &mut Rng, i: usize) -> u32 {
        let me = self.me(i);
        let pending: Vec<u32> = self.view.calls.iter().filter(|c| c.1 == me).map(|c| c.0).collect();
        if !pending.is_empty() && rng.below(100) < Self::LIVE_PCT {
            return *rng.pick(&pending);
        }
        let own = &self.fwd[i];
        let r = rng.below(100);
        if !own.is_empty() && r < 70 {
            // mostly the most recent ones (likely still pending)
            let n = own.len();
            own[n - 1 - rng.below(n.min(3) as u64) as usize]
        } else if r < 85 {
            // a serial forwarded to somebody else (foreign reply)
            let others: Vec<u32> = self.fwd.iter().flatten().copied().collect();
            if others.is_empty() {
                rng.below(4) as u32
            } else {
                *rng.pick(&others)
            }
        } else {
            rng.below(6) as u32
        }
    }

    fn recent_serial(&mut self, rng: &mut Rng, i: usize) -> u32 {
        let me = self.me(i);
        let mine: Vec<u32> = self.view.my_calls.iter().filter(|c| c.0 == me).map(|c| c.1).collect();
        if !mine.is_empty() && rng.below(100) < Self::LIVE_PCT {
            return *rng.pick(&mine);
        }
        let n = self.next_serial[i];
        if n > 0 && rng.chance(4, 5) {
            n - 1 - rng.below(n.min(4) as u64) as u32
        } else {
            rng.below(5) as u32
        }
    }

    fn wrong_direction(&mut self, rng: &mut Rng, serial: u32) -> Message {
        let oid = ObjectId::new(*rng.pick(&self.obj_uuids), self.obj(rng));
        match rng.below(24) {
            0 => CreateObjectReply { serial, result: CreateObjectResult::DuplicateObject }.into(),
            1 => DestroyObjectReply { serial, result: DestroyObjectResult::Ok }.into(),
            2 => CreateServiceReply { serial, result: CreateServiceResult::Ok(self.svc(rng)) }.into(),
            3 => DestroyServiceReply { serial, result: DestroyServiceResult::Ok }.into(),
            4 => SubscribeEventReply { serial, result: SubscribeEventResult::Ok }.into(),
            5 => QueryServiceVersionReply { serial, result: QueryServiceVersionResult::Ok(1) }.into(),
            6 => CreateChannelReply { serial, cookie: self.chan(rng) }.into(),
            7 => CloseChannelEndReply { serial, result: CloseChannelEndResult::Ok }.into(),
            8 => ChannelEndClosed { cookie: self.chan(rng), end: ChannelEnd::Sender }.into(),
            9 => ClaimChannelEndReply { serial, result: ClaimChannelEndResult::SenderClaimed(3) }.into(),
            10 => ChannelEndClaimed { cookie: self.chan(rng), end: ChannelEndWithCapacity::Receiver(2) }.into(),
            11 => ItemReceived { cookie: self.chan(rng), value: self.value(rng) }.into(),
            12 => SyncReply { serial }.into(),
            13 => ServiceDestroyed { service_cookie: self.svc(rng) }.into(),
            14 => CreateBusListenerReply { serial, cookie: self.lst(rng) }.into(),
            15 => DestroyBusListenerReply { serial, result: DestroyBusListenerResult::Ok }.into(),
            16 => StartBusListenerReply { serial, result: StartBusListenerResult::Ok }.into(),
            17 => StopBusListenerReply { serial, result: StopBusListenerResult::Ok }.into(),
            18 => EmitBusEvent { cookie: None, event: BusEvent::ObjectCreated(oid) }.into(),
            19 => BusListenerCurrentFinished { cookie: self.lst(rng) }.into(),
            20 => QueryServiceInfoReply { serial, result: QueryServiceInfoResult::InvalidService }.into(),
            21 => SubscribeServiceReply { serial, result: SubscribeServiceResult::Ok }.into(),
            22 => SubscribeAllEventsReply { serial, result: SubscribeAllEventsResult::Ok }.into(),
            _ => {
                if rng.chance(1, 2) {
                    UnsubscribeAllEventsReply { serial, result: UnsubscribeAllEventsResult::Ok }.into()
                } else {
                    Connect2 {
                        major_version: 1,
                        minor_version: 20,
                        value: SerializedValue::serialize(ConnectData::new()).unwrap(),
                    }
                    .into()
                }
            }
        }
    }
}
