//! The runner linked into the generated corpus crate: feeds the TLC-predicted vectors through the generated
//! types and compares verdict and re-encoding with the prediction of /verif/spec/SchemaTypes.tla.
//!
//! Per vector: the abstract value is made concrete (model.rs), serialized with the real core serializer
//! (current "V2" terminated containers) and converted to the legacy "V1" counted encoding with the real
//! converter; each encoding is passed through the chain of generated types of the vector, once per
//! serialization path of the derive (by value, by reference, through the generated `...Ref` type). At
//! every hop the real verdict must equal the predicted one and, on accept, the re-encoded bytes decoded
//! with the core `Value` decoder must equal the predicted value. The next hop gets the REAL bytes.

use crate::model::{self, Tokens};
use aldrin_core::tags::{PrimaryTag, Tag};
use aldrin_core::{
    DeserializePrimary, ProtocolVersion, Serialize, SerializeError, SerializePrimary, SerializedValue,
    SerializedValueSlice, Value,
};
use serde_json::{json, Value as Json};
use std::collections::{BTreeMap, HashMap};
use std::io::{BufRead, BufReader};
use std::panic::{catch_unwind, AssertUnwindSafe};

#[derive(Clone, Copy, Debug, PartialEq, Eq)]
pub enum Path {
    Val,
    Ref,
    RefType,
}

#[derive(Debug)]
pub enum Outcome {
    Rejected(String),
    Accepted(SerializedValue),
    SerializeFailed(String),
}

pub struct Entry {
    pub name: &'static str,
    pub rust: &'static str,
    pub run: fn(&SerializedValueSlice, Path) -> Outcome,
}

/// Deserialize as the generated type `T`, serialize it again through the requested path.
pub fn roundtrip<T>(
    input: &SerializedValueSlice,
    path: Path,
    via_ref_type: fn(&T) -> Result<SerializedValue, SerializeError>,
) -> Outcome
where
    T: DeserializePrimary + SerializePrimary,
    for<'a> &'a T: Serialize<<T as PrimaryTag>::Tag>,
{
    let t: T = match input.deserialize() {
        Ok(t) => t,
        Err(e) => return Outcome::Rejected(format!("{e:?}")),
    };
    let r = match path {
        Path::Ref => SerializedValue::serialize_as::<<T as PrimaryTag>::Tag>(&t),
        Path::RefType => via_ref_type(&t),
        Path::Val => SerializedValue::serialize(t),
    };
    match r {
        Ok(v) => Outcome::Accepted(v),
        Err(e) => Outcome::SerializeFailed(format!("{e:?}")),
    }
}

/// `SerializedValue::serialize_as` with both generics nameable (used by the generated entry table).
pub fn ser_as<T: Tag, U: Serialize<T>>(value: U) -> Result<SerializedValue, SerializeError> {
    SerializedValue::serialize_as::<T>(value)
}

fn bytes_of(v: &SerializedValue) -> &[u8] {
    v
}

/// Is `real` within the range of equivalent re-encodings spanned by `lo` (the reference's output: unset optional
/// fields left out) and `hi` (the same with every unset optional field written as an explicit None)? `lo` and `hi`
/// have the same shape except for additional None-valued fields in the structs of `hi`.
pub fn between(real: &Value, lo: &Value, hi: &Value) -> bool {
    fn maps<K: std::hash::Hash + Eq>(r: &HashMap<K, Value>, l: &HashMap<K, Value>, h: &HashMap<K, Value>) -> bool {
        r.len() == l.len()
            && l.len() == h.len()
            && r.iter().all(|(k, rv)| match (l.get(k), h.get(k)) {
                (Some(lv), Some(hv)) => between(rv, lv, hv),
                _ => false,
            })
    }
    match (real, lo, hi) {
        (Value::Struct(r), Value::Struct(l), Value::Struct(h)) => {
            l.0.keys().all(|id| r.0.contains_key(id))
                && r.0.iter().all(|(id, rv)| match (l.0.get(id), h.0.get(id)) {
                    (Some(lv), Some(hv)) => between(rv, lv, hv),
                    (None, Some(hv)) => rv == hv && hv.is_none(),
                    _ => false,
                })
        }
        (Value::Some(r), Value::Some(l), Value::Some(h)) => between(r, l, h),
        (Value::Enum(r), Value::Enum(l), Value::Enum(h)) => r.id == l.id && l.id == h.id && between(&r.value, &l.value, &h.value),
        (Value::Vec(r), Value::Vec(l), Value::Vec(h)) => {
            r.len() == l.len() && l.len() == h.len() && r.iter().zip(l).zip(h).all(|((r, l), h)| between(r, l, h))
        }
        (Value::U8Map(r), Value::U8Map(l), Value::U8Map(h)) => maps(r, l, h),
        (Value::I8Map(r), Value::I8Map(l), Value::I8Map(h)) => maps(r, l, h),
        (Value::U16Map(r), Value::U16Map(l), Value::U16Map(h)) => maps(r, l, h),
        (Value::I16Map(r), Value::I16Map(l), Value::I16Map(h)) => maps(r, l, h),
        (Value::U32Map(r), Value::U32Map(l), Value::U32Map(h)) => maps(r, l, h),
        (Value::I32Map(r), Value::I32Map(l), Value::I32Map(h)) => maps(r, l, h),
        (Value::U64Map(r), Value::U64Map(l), Value::U64Map(h)) => maps(r, l, h),
        (Value::I64Map(r), Value::I64Map(l), Value::I64Map(h)) => maps(r, l, h),
        (Value::StringMap(r), Value::StringMap(l), Value::StringMap(h)) => maps(r, l, h),
        (Value::UuidMap(r), Value::UuidMap(l), Value::UuidMap(h)) => maps(r, l, h),
        _ => real == lo,
    }
}

fn hex(b: &[u8]) -> String {
    b.iter().map(|x| format!("{x:02x}")).collect()
}

struct Run<'a> {
    entries: HashMap<&'static str, &'a Entry>,
    toks: Tokens,
    corrupt: Option<u64>,
    violations: u64,
    violation_list: Vec<Json>,
    drifts: u64,
    drift_list: Vec<Json>,
    roundtrips: u64,
    hops_run: u64,
    accepted: u64,
    rejected: u64,
    vectors: u64,
    nontrivial: u64,
    v1_inputs: u64,
    by_class: BTreeMap<String, u64>,
    samples: Vec<Json>,
    sampled_classes: HashMap<String, u32>,
}

impl Run<'_> {
    fn violation(&mut self, what: String, vec: &Json, detail: Json) {
        self.violations += 1;
        if self.violation_list.len() < 40 {
            self.violation_list.push(json!({"what": what, "id": vec["id"], "cls": vec["cls"], "chain": vec["chain"], "detail": detail}));
        }
    }

    fn vector(&mut self, vec: &Json) -> Result<(), String> {
        let id = vec["id"].as_u64().ok_or("vector without id")?;
        let cls = vec["cls"].as_str().ok_or("vector without cls")?.to_owned();
        let chain: Vec<&str> = vec["chain"].as_array().ok_or("no chain")?.iter().map(|c| c.as_str().unwrap_or("")).collect();
        let hops = vec["hops"].as_array().ok_or("no hops")?;
        let value = model::value(&self.toks, &vec["v"])?;
        let mut expected: Vec<(bool, Value, Value)> = Vec::new();
        for h in hops {
            let ok = h["ok"].as_bool().ok_or("hop without ok")?;
            let out = if ok { model::value(&self.toks, &h["out"])? } else { Value::None };
            let alt = if ok && h.get("alt").is_some() { model::value(&self.toks, &h["alt"])? } else { out.clone() };
            expected.push((ok, out, alt));
        }
        if self.corrupt == Some(id) {
            // binding self test: the oracle is corrupted, the comparison below must object
            let (ok, out, alt) = expected.last_mut().unwrap();
            if *ok {
                *out = Value::Some(Box::new(out.clone()));
                *alt = out.clone();
            } else {
                *ok = true;
            }
        }
        self.vectors += 1;
        *self.by_class.entry(cls.clone()).or_insert(0) += 1;
        if model::nontrivial(&vec["v"]) {
            self.nontrivial += 1;
        }

        let v2 = SerializedValue::serialize(&value).map_err(|e| format!("cannot serialize the input value: {e:?}"))?;
        let mut v1 = v2.clone();
        v1.convert(None, ProtocolVersion::V1_14).map_err(|e| format!("cannot convert the input value: {e:?}"))?;
        let back1 = v1.deserialize_as_value().map_err(|e| format!("legacy encoding does not decode: {e:?}"))?;
        if back1 != value {
            return Err("the legacy encoding of the input decodes to a different value".to_owned());
        }
        let mut inputs = vec![("v2", v2.clone())];
        if bytes_of(&v1) != bytes_of(&v2) {
            inputs.push(("v1", v1));
            self.v1_inputs += 1;
        }

        for (enc, input) in inputs {
            for path in [Path::Val, Path::Ref, Path::RefType] {
                self.roundtrips += 1;
                let mut cur = input.clone();
                let mut trace = Vec::new();
                for (h, name) in chain.iter().enumerate() {
                    if h >= expected.len() {
                        break;
                    }
                    let entry = *self.entries.get(name).ok_or_else(|| format!("no generated type {name}"))?;
                    self.hops_run += 1;
                    let res = catch_unwind(AssertUnwindSafe(|| (entry.run)(&cur, path)));
                    let ctx = json!({"enc": enc, "path": format!("{path:?}"), "hop": h, "type": name, "rust": entry.rust,
                                     "input_hex": hex(&cur)});
                    let (exp_ok, exp_out, exp_alt) = &expected[h];
                    match res {
                        Err(_) => {
                            self.violation(format!("{cls}: the generated code panicked"), vec, ctx);
                            break;
                        }
                        Ok(Outcome::Rejected(e)) => {
                            self.rejected += 1;
                            trace.push(json!({"type": name, "verdict": "reject", "error": e}));
                            if *exp_ok {
                                self.violation(
                                    format!("{cls}: a conforming value was rejected by the generated type"),
                                    vec,
                                    json!({"ctx": ctx, "error": e}),
                                );
                            }
                            break;
                        }
                        Ok(Outcome::SerializeFailed(e)) => {
                            self.violation(
                                format!("{cls}: the decoded value could not be serialized again"),
                                vec,
                                json!({"ctx": ctx, "error": e}),
                            );
                            break;
                        }
                        Ok(Outcome::Accepted(out)) => {
                            self.accepted += 1;
                            trace.push(json!({"type": name, "verdict": "accept", "out_hex": hex(&out)}));
                            if !*exp_ok {
                                self.violation(
                                    format!("{cls}: a non-conforming value was accepted by the generated type"),
                                    vec,
                                    json!({"ctx": ctx, "out_hex": hex(&out)}),
                                );
                                break;
                            }
                            match out.deserialize_as_value() {
                                Err(e) => {
                                    self.violation(
                                        format!("{cls}: the re-encoded bytes do not decode as a value"),
                                        vec,
                                        json!({"ctx": ctx, "out_hex": hex(&out), "error": format!("{e:?}")}),
                                    );
                                    break;
                                }
                                Ok(real) => {
                                    if real != *exp_out && between(&real, exp_out, exp_alt) {
                                        // equivalent, but not the reference's own re-encoding: conformance, not a verdict
                                        self.drifts += 1;
                                        if self.drift_list.len() < 20 {
                                            self.drift_list.push(json!({"id": id, "cls": cls, "what": "the re-encoding is equivalent but writes unset optional fields as explicit None",
                                                "ctx": ctx, "real": format!("{real:?}"), "predicted": format!("{exp_out:?}")}));
                                        }
                                    } else if real != *exp_out {
                                        self.violation(
                                            format!("{cls}: the re-encoded value is not the predicted equivalent value"),
                                            vec,
                                            json!({"ctx": ctx, "out_hex": hex(&out), "real": format!("{real:?}"),
                                                   "predicted": format!("{exp_out:?}")}),
                                        );
                                        break;
                                    }
                                }
                            }
                            cur = out;
                        }
                    }
                }
                let n = self.sampled_classes.entry(cls.clone()).or_insert(0);
                if *n < 1 && self.samples.len() < 24 && enc == "v2" && path == Path::Ref {
                    *n += 1;
                    self.samples.push(json!({"id": id, "cls": cls, "chain": chain, "input_hex": hex(&input), "trace": trace}));
                }
            }
        }
        Ok(())
    }
}

/// `corpus --vectors FILE --seed N [--corrupt ID] [--only ID]`; the last stdout line is a JSON summary.
pub fn main(entries: &[Entry]) {
    let args: Vec<String> = std::env::args().collect();
    let mut vectors = None;
    let mut seed = 1u64;
    let mut corrupt = None;
    let mut only = None;
    let mut i = 1;
    while i < args.len() {
        match args[i].as_str() {
            "--vectors" => vectors = args.get(i + 1).cloned(),
            "--seed" => seed = args[i + 1].parse().expect("seed"),
            "--corrupt" => corrupt = Some(args[i + 1].parse().expect("id")),
            "--only" => only = Some(args[i + 1].parse::<u64>().expect("id")),
            other => panic!("unknown argument {other}"),
        }
        i += 2;
    }
    let path = vectors.expect("--vectors");
    std::panic::set_hook(Box::new(|_| {}));
    let mut run = Run {
        entries: entries.iter().map(|e| (e.name, e)).collect(),
        toks: Tokens { seed },
        corrupt,
        violations: 0,
        violation_list: Vec::new(),
        drifts: 0,
        drift_list: Vec::new(),
        roundtrips: 0,
        hops_run: 0,
        accepted: 0,
        rejected: 0,
        vectors: 0,
        nontrivial: 0,
        v1_inputs: 0,
        by_class: BTreeMap::new(),
        samples: Vec::new(),
        sampled_classes: HashMap::new(),
    };
    let f = BufReader::new(std::fs::File::open(&path).expect("vectors file"));
    for line in f.lines() {
        let line = line.expect("read");
        if line.trim().is_empty() {
            continue;
        }
        let j: Json = serde_json::from_str(&line).expect("vector json");
        if j["kind"] != "vec" {
            continue;
        }
        let id = j["id"].as_u64();
        if only.is_some() && id != only {
            continue;
        }
        if corrupt.is_some() && id != corrupt {
            continue;
        }
        if let Err(e) = run.vector(&j) {
            // a vector the runner cannot evaluate is a tool error, not a verdict
            println!("{}", json!({"tool_error": e, "id": j["id"]}));
            std::process::exit(3);
        }
    }
    println!(
        "{}",
        json!({"vectors": run.vectors, "roundtrips": run.roundtrips, "hops": run.hops_run, "accepted": run.accepted,
               "rejected": run.rejected, "nontrivial": run.nontrivial, "v1_inputs": run.v1_inputs, "types": entries.len(),
               "by_class": run.by_class, "violations": run.violations, "violation_list": run.violation_list,
               "drifts": run.drifts, "drift_list": run.drift_list,
               "samples": run.samples})
    );
}
