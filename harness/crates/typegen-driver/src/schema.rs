//! The TLC-emitted corpus (JSON lines of SchemaTypes_MC) -> `.aldrin` schema text, plus the Rust source of
//! the entry table that binds every corpus definition to the type the real code generator emits for it.
//!
//! Presentation choices that the model leaves open are made here, deterministically: schema grouping
//! (library schema `base`, corpus schemas `c0`, `c1`, ... of at most CHUNK definitions, each with one
//! service carrying the inline definitions), identifiers (pools that include Rust keywords, so that raw
//! identifiers are exercised), array lengths as literals or as references to constants.

use aldrin_codegen::rust::names;
use serde_json::Value as Json;
use std::collections::{BTreeMap, BTreeSet};
use std::fmt::Write;

pub const CHUNK: usize = 24;
pub const BASE: &str = "base";

const FIELD_NAMES: &[&str] = &[
    "alpha", "type", "beta_two", "match", "gamma", "ref", "delta3", "loop", "where", "epsilon", "fn_ptr", "move",
];
const FALLBACK_FIELDS: &[&str] = &["unknown", "rest", "other_fields", "dyn"];
const VARIANT_NAMES: &[&str] = &["Alpha", "Type", "BetaTwo", "break", "Gamma", "Match", "continue", "Delta3", "Loop"];
const FALLBACK_VARIANTS: &[&str] = &["Unknown", "Other", "Rest"];

#[derive(Clone, Debug)]
pub struct Def {
    pub idx: usize,
    pub name: String,
    pub home: String,
    pub def: Json,
}

#[derive(Debug)]
pub struct Corpus {
    pub header: Json,
    pub defs: Vec<Def>,
    pub libextern: BTreeSet<String>,
}

#[derive(Debug)]
pub struct Placed {
    pub def: Def,
    pub schema: String,
    /// name of the generated Rust type inside the schema's module
    pub rust_name: String,
    /// inline definitions: (service, function / event name)
    pub inline: Option<(String, String)>,
}

#[derive(Debug)]
pub struct SchemaText {
    pub name: String,
    pub text: String,
    pub introspection: bool,
}

pub fn parse_corpus(lines: impl Iterator<Item = String>) -> Result<Corpus, String> {
    let mut header = Json::Null;
    let mut defs = Vec::new();
    for l in lines {
        if l.trim().is_empty() {
            continue;
        }
        let j: Json = serde_json::from_str(&l).map_err(|e| format!("bad corpus line: {e}"))?;
        match j["kind"].as_str() {
            Some("header") => header = j,
            Some("type") => defs.push(Def {
                idx: j["idx"].as_u64().ok_or("type without idx")? as usize,
                name: j["name"].as_str().ok_or("type without name")?.to_owned(),
                home: j["home"].as_str().ok_or("type without home")?.to_owned(),
                def: j["def"].clone(),
            }),
            _ => {}
        }
    }
    if header.is_null() {
        return Err("corpus without header".to_owned());
    }
    defs.sort_by_key(|d| d.idx);
    let libextern = header["libextern"].as_array().ok_or("header without libextern")?.iter().filter_map(|x| x.as_str().map(str::to_owned)).collect();
    Ok(Corpus { header, defs, libextern })
}

fn refs_of_type(t: &Json, out: &mut BTreeSet<String>) {
    if t["t"] == "ref" {
        out.insert(t["name"].as_str().unwrap_or("").to_owned());
    }
    for k in ["a", "b", "k"] {
        if t.get(k).is_some() {
            refs_of_type(&t[k], out);
        }
    }
}

fn types_of_def(def: &Json) -> Vec<&Json> {
    match def["d"].as_str() {
        Some("struct") => def["fields"].as_array().map(|f| f.iter().map(|x| &x["ty"]).collect()).unwrap_or_default(),
        Some("enum") => def["vars"].as_array().map(|f| f.iter().filter(|x| x["has"] == true).map(|x| &x["ty"]).collect()).unwrap_or_default(),
        _ => vec![&def["ty"]],
    }
}

fn refs_of_def(def: &Json) -> BTreeSet<String> {
    let mut s = BTreeSet::new();
    for t in types_of_def(def) {
        refs_of_type(t, &mut s);
    }
    s
}

struct Ctx<'a> {
    corpus: &'a Corpus,
    schema: &'a str,
    uses_base: bool,
    consts: BTreeSet<u64>,
}

impl Ctx<'_> {
    fn ty(&mut self, t: &Json) -> Result<String, String> {
        let k = t["t"].as_str().ok_or("type without t")?;
        Ok(match k {
            "option" | "box" | "vec" | "set" | "sender" | "receiver" => format!("{k}<{}>", self.ty(&t["a"])?),
            "map" => format!("map<{} -> {}>", self.ty(&t["k"])?, self.ty(&t["a"])?),
            "result" => format!("result<{}, {}>", self.ty(&t["a"])?, self.ty(&t["b"])?),
            "array" => {
                let n = t["n"].as_u64().ok_or("array without n")?;
                let inner = self.ty(&t["a"])?;
                if n == 2 {
                    // array length through a constant (codegen array_name, ArrayLenValue::Ref)
                    self.consts.insert(n);
                    format!("[{inner}; LEN{n}]")
                } else {
                    format!("[{inner}; {n}]")
                }
            }
            "ref" => {
                let name = t["name"].as_str().ok_or("ref without name")?;
                if self.corpus.libextern.contains(name) && self.schema != BASE {
                    self.uses_base = true;
                    format!("{BASE}::{name}")
                } else {
                    name.to_owned()
                }
            }
            prim => prim.to_owned(),
        })
    }

    fn body(&mut self, d: &Def, indent: &str) -> Result<String, String> {
        let mut s = String::new();
        match d.def["d"].as_str() {
            Some("struct") => {
                for (j, f) in d.def["fields"].as_array().ok_or("no fields")?.iter().enumerate() {
                    let req = if f["req"] == true { "required " } else { "" };
                    writeln!(s, "{indent}    {req}{} @ {} = {};", field_name(d.idx, j), f["id"], self.ty(&f["ty"])?).unwrap();
                }
                if d.def["fb"] == true {
                    writeln!(s, "{indent}    {} = fallback;", fallback_field(d.idx)).unwrap();
                }
            }
            Some("enum") => {
                for (j, v) in d.def["vars"].as_array().ok_or("no vars")?.iter().enumerate() {
                    if v["has"] == true {
                        writeln!(s, "{indent}    {} @ {} = {};", variant_name(d.idx, j), v["id"], self.ty(&v["ty"])?).unwrap();
                    } else {
                        writeln!(s, "{indent}    {} @ {};", variant_name(d.idx, j), v["id"]).unwrap();
                    }
                }
                if d.def["fb"] == true {
                    writeln!(s, "{indent}    {} = fallback;", fallback_variant(d.idx)).unwrap();
                }
            }
            other => return Err(format!("no body for {other:?}")),
        }
        Ok(s)
    }
}

pub fn field_name(idx: usize, j: usize) -> &'static str {
    FIELD_NAMES[(idx * 5 + j) % FIELD_NAMES.len()]
}

pub fn fallback_field(idx: usize) -> &'static str {
    FALLBACK_FIELDS[idx % FALLBACK_FIELDS.len()]
}

pub fn variant_name(idx: usize, j: usize) -> &'static str {
    VARIANT_NAMES[(idx * 4 + j) % VARIANT_NAMES.len()]
}

pub fn fallback_variant(idx: usize) -> &'static str {
    FALLBACK_VARIANTS[idx % FALLBACK_VARIANTS.len()]
}

fn fn_name(idx: usize) -> String {
    format!("f_{idx}")
}

/// Groups the definitions into schemas and decides the name of the generated Rust type of each.
pub fn place(corpus: &Corpus) -> Vec<Placed> {
    let mut placed = Vec::new();
    let mut n = 0usize;
    for d in &corpus.defs {
        if d.home == "lib" {
            placed.push(Placed { def: d.clone(), schema: BASE.to_owned(), rust_name: d.name.clone(), inline: None });
            continue;
        }
        // library definitions that live in the referencing schema: their own vectors run on the copy in c0
        let k = if d.home == "intern" { 0 } else { n / CHUNK };
        if d.home != "intern" {
            n += 1;
        }
        let schema = format!("c{k}");
        let svc = format!("Svc{k}");
        let (rust_name, inline) = match d.home.as_str() {
            "args" => (names::function_args(&svc, &fn_name(d.idx)), Some((svc, fn_name(d.idx)))),
            "ok" => (names::function_ok(&svc, &fn_name(d.idx)), Some((svc, fn_name(d.idx)))),
            "err" => (names::function_err(&svc, &fn_name(d.idx)), Some((svc, fn_name(d.idx)))),
            "event" => (names::event_args(&svc, &fn_name(d.idx)), Some((svc, fn_name(d.idx)))),
            _ => (d.name.clone(), None),
        };
        // newtypes cannot be declared inline
        let (rust_name, inline) = if d.def["d"] == "newtype" { (d.name.clone(), None) } else { (rust_name, inline) };
        placed.push(Placed { def: d.clone(), schema, rust_name, inline });
    }
    placed
}

/// `.aldrin` text of every schema.
pub fn render(corpus: &Corpus, placed: &[Placed]) -> Result<Vec<SchemaText>, String> {
    let mut by_schema: BTreeMap<String, Vec<&Placed>> = BTreeMap::new();
    for p in placed {
        by_schema.entry(p.schema.clone()).or_default().push(p);
    }
    let interns: Vec<&Def> = corpus.defs.iter().filter(|d| d.home == "intern").collect();
    let mut out = Vec::new();
    for (k, (schema, items)) in by_schema.iter().enumerate() {
        let mut ctx = Ctx { corpus, schema, uses_base: false, consts: BTreeSet::new() };
        let mut body = String::new();
        // library definitions of the referencing schema: every schema that uses one gets its own copy
        let mut needed: BTreeSet<String> = BTreeSet::new();
        for p in items {
            needed.extend(refs_of_def(&p.def.def));
        }
        let mut tops: Vec<(&Def, String)> = Vec::new();
        for p in items {
            if p.inline.is_none() {
                tops.push((&p.def, p.rust_name.clone()));
            }
        }
        for d in &interns {
            if needed.contains(&d.name) && !tops.iter().any(|(t, _)| t.name == d.name) {
                tops.push((d, d.name.clone()));
            }
        }
        for (d, name) in &tops {
            match d.def["d"].as_str() {
                Some("newtype") => writeln!(body, "newtype {name} = {};\n", ctx.ty(&d.def["ty"])?).unwrap(),
                Some(kind) => writeln!(body, "{kind} {name} {{\n{}}}\n", ctx.body(d, "")?).unwrap(),
                None => return Err("definition without kind".to_owned()),
            }
        }
        if schema != BASE {
            // one service per corpus schema: the inline definitions, functions / events over named and built-in
            // types, raw identifiers, fallbacks
            let svc = format!("Svc{}", &schema[1..]);
            let mut s = String::new();
            writeln!(s, "service {svc} {{").unwrap();
            writeln!(s, "    uuid = 7d1f3f08-26f0-4a35-8b8e-{:012x};", 0xc16_0000_0000u64 + k as u64).unwrap();
            writeln!(s, "    version = {};\n", 1 + k).unwrap();
            let mut events = String::new();
            for p in items.iter().filter(|p| p.inline.is_some()) {
                let kind = p.def.def["d"].as_str().unwrap_or("");
                let inner = ctx.body(&p.def, "        ")?;
                let f = fn_name(p.def.idx);
                match p.def.home.as_str() {
                    "event" => writeln!(events, "    event {f} @ {} = {kind} {{\n{inner}    }}\n", p.def.idx).unwrap(),
                    "ok" if p.def.idx % 2 == 0 => writeln!(s, "    fn {f} @ {} = {kind} {{\n{inner}    }}\n", p.def.idx).unwrap(),
                    part => {
                        let part = if part == "err" { "err" } else { part };
                        writeln!(s, "    fn {f} @ {} {{\n        {part} = {kind} {{\n{inner}        }}\n    }}\n", p.def.idx).unwrap()
                    }
                }
            }
            let named: Vec<&str> = tops.iter().map(|(_, n)| n.as_str()).collect();
            for (n, w) in named.chunks(3).enumerate().take(4) {
                writeln!(s, "    fn named_{n} @ {} {{", 300 + n).unwrap();
                writeln!(s, "        args = {};", w[0]).unwrap();
                if w.len() > 1 {
                    writeln!(s, "        ok = {};", w[1]).unwrap();
                }
                if w.len() > 2 {
                    writeln!(s, "        err = {};", w[2]).unwrap();
                }
                writeln!(s, "    }}\n").unwrap();
                writeln!(events, "    event named_ev_{n} @ {} = {};\n", 300 + n, w[w.len() - 1]).unwrap();
            }
            writeln!(s, "    fn plain @ 400 = u32;\n\n    fn nothing @ 401;\n\n    fn ref @ 402 {{\n        args = option<string>;\n        err = unit;\n    }}\n").unwrap();
            writeln!(events, "    event bare @ 401;\n\n    event mut @ 402 = vec<bytes>;\n").unwrap();
            s.push_str(&events);
            if k % 2 == 1 {
                writeln!(s, "    fn unknown_function = fallback;\n    event unknown_event = fallback;").unwrap();
            }
            writeln!(s, "}}\n").unwrap();
            body.push_str(&s);
        }
        let mut head = String::new();
        if ctx.uses_base {
            writeln!(head, "import {BASE};\n").unwrap();
        }
        for n in &ctx.consts {
            writeln!(head, "const LEN{n} = u32({n});\n").unwrap();
        }
        // introspection for the library schema and every other corpus schema
        let introspection = schema == BASE || schema[1..].parse::<usize>().map(|x| x % 2 == 0).unwrap_or(false);
        out.push(SchemaText { name: schema.clone(), text: head + &body, introspection });
    }
    Ok(out)
}

/// Rust source of the corpus crate's `main.rs`: module declarations and one entry per definition.
pub fn main_rs(placed: &[Placed], schemas: &[SchemaText]) -> String {
    let mut s = String::new();
    s.push_str("// generated by typegen-gen from the TLC-emitted corpus of /verif/spec/SchemaTypes.tla -- never committed\n");
    s.push_str("#![allow(warnings)]\n\n");
    for sc in schemas {
        writeln!(s, "pub mod r#{};", sc.name).unwrap();
    }
    s.push_str("\nuse aldrin::core::{SerializeError, SerializedValue, SerializedValueSlice};\n");
    s.push_str("use typegen_driver::rt::{roundtrip, ser_as, Entry, Outcome, Path};\n\n");
    let mut table = String::new();
    for p in placed {
        let m = format!("r#{}", p.schema);
        let ty = format!("{m}::r#{}", p.rust_name);
        let rty = format!("{m}::r#{}Ref", p.rust_name);
        let id = format!("{}_{}", p.schema, p.def.name);
        let expr = match p.def.def["d"].as_str() {
            Some("struct") => {
                let mut fields = Vec::new();
                for (j, _) in p.def.def["fields"].as_array().map(Vec::as_slice).unwrap_or(&[]).iter().enumerate() {
                    let n = field_name(p.def.idx, j);
                    fields.push(format!("r#{n}: &v.r#{n}"));
                }
                if p.def.def["fb"] == true {
                    let n = fallback_field(p.def.idx);
                    fields.push(format!("r#{n}: &v.r#{n}"));
                }
                if fields.is_empty() {
                    rty.clone()
                } else {
                    format!("{rty} {{ {} }}", fields.join(", "))
                }
            }
            Some("enum") => {
                let mut arms = Vec::new();
                for (j, v) in p.def.def["vars"].as_array().map(Vec::as_slice).unwrap_or(&[]).iter().enumerate() {
                    let n = variant_name(p.def.idx, j);
                    if v["has"] == true {
                        arms.push(format!("{ty}::r#{n}(x) => {rty}::r#{n}(x)"));
                    } else {
                        arms.push(format!("{ty}::r#{n} => {rty}::r#{n}"));
                    }
                }
                if p.def.def["fb"] == true {
                    let n = fallback_variant(p.def.idx);
                    arms.push(format!("{ty}::r#{n}(x) => {rty}::r#{n}(x)"));
                }
                format!("match v {{ {} }}", arms.join(", "))
            }
            _ => format!("{rty}(&v.0)"),
        };
        writeln!(s, "fn ref_{id}(v: &{ty}) -> Result<SerializedValue, SerializeError> {{\n    ser_as::<{ty}, _>({expr})\n}}").unwrap();
        writeln!(s, "fn run_{id}(b: &SerializedValueSlice, p: Path) -> Outcome {{\n    roundtrip::<{ty}>(b, p, ref_{id})\n}}\n").unwrap();
        writeln!(table, "    Entry {{ name: \"{}\", rust: \"{}::{}\", run: run_{id} }},", p.def.name, p.schema, p.rust_name).unwrap();
    }
    writeln!(s, "static ENTRIES: &[Entry] = &[\n{table}];\n").unwrap();
    s.push_str("fn main() {\n    typegen_driver::rt::main(ENTRIES)\n}\n");
    s
}
