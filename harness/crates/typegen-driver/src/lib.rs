//! Runtime of the C16 check (see Cargo.toml).
