//! C16 -- runtime of the check "generated Rust types are wire-compatible with their schema".
//!
//! * `model`: abstract values of /verif/spec/SchemaTypes.tla -> concrete `aldrin_core::Value`s;
//! * `rt`: the runner linked into the generated corpus crate (entry table of generated types);
//! * `schema`: the TLC-emitted corpus -> `.aldrin` text, and the Rust entry table for `rt`.
//!
//! The binary `typegen-gen` runs the REAL parser and code generator of /repo on the printed schemas and
//! writes the corpus crate (never committed) that cargo/rustc then compile.

pub mod model;
pub mod rt;
pub mod schema;
