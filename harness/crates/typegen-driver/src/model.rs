//! Abstract values of /verif/spec/SchemaTypes.tla (JSON as printed by SchemaTypes_MC) -> `aldrin_core::Value`.
//!
//! The model's leaves are `(kind, token)`; the concrete number / string / uuid behind a token is chosen
//! here (the abstraction function of the check): token 0 is the zero / empty value, token 2 an extreme
//! value of the kind, tokens 1 and 3 are derived from the seed. Key tokens 0..3 are always pairwise
//! distinct.

use aldrin_core::{
    Bytes, ChannelCookie, Enum, ObjectCookie, ObjectId, ObjectUuid, ServiceCookie, ServiceId,
    ServiceUuid, Struct, Value,
};
use serde_json::Value as Json;
use std::collections::{HashMap, HashSet};
use uuid::Uuid;

#[derive(Clone, Copy, Debug)]
pub struct Tokens {
    pub seed: u64,
}

fn mix(mut x: u64) -> u64 {
    // splitmix64
    x = x.wrapping_add(0x9e37_79b9_7f4a_7c15);
    x = (x ^ (x >> 30)).wrapping_mul(0xbf58_476d_1ce4_e5b9);
    x = (x ^ (x >> 27)).wrapping_mul(0x94d0_49bb_1331_11eb);
    x ^ (x >> 31)
}

impl Tokens {
    fn rnd(&self, kind: &str, tok: u64) -> u64 {
        let mut h = self.seed.wrapping_mul(0x1_0000_01b3) ^ tok.wrapping_mul(0x9e37);
        for b in kind.bytes() {
            h = mix(h ^ b as u64);
        }
        mix(h)
    }

    fn uuid(&self, kind: &str, tok: u64) -> Uuid {
        match tok {
            0 => Uuid::nil(),
            2 => Uuid::from_u128(u128::MAX),
            _ => Uuid::from_u128(((self.rnd(kind, tok) as u128) << 64) | self.rnd(kind, tok + 100) as u128 | 1),
        }
    }

    fn string(&self, kind: &str, tok: u64) -> String {
        match tok {
            0 => String::new(),
            2 => "a\"b\\c\n\u{20ac}\u{1f600}".to_owned(),
            _ => format!("s{}-h\u{e9}llo-{}", tok, self.rnd(kind, tok) % 100_000),
        }
    }

    /// unsigned sample of `bits` width: 0 / seed-derived non-zero / max / another seed-derived one
    fn unsigned(&self, kind: &str, tok: u64, bits: u32) -> u64 {
        let max = if bits == 64 { u64::MAX } else { (1u64 << bits) - 1 };
        match tok {
            0 => 0,
            2 => max,
            _ => {
                // distinct from 0 and max, and tokens 1 / 3 distinct from each other (odd / even)
                let span = max - 2;
                let r = 1 + self.rnd(kind, tok) % span;
                let r = if tok == 1 { r | 1 } else { r & !1 };
                r.clamp(1, max - 1).max(if tok == 1 { 1 } else { 2 })
            }
        }
    }

    fn signed(&self, kind: &str, tok: u64, bits: u32) -> i64 {
        let min = if bits == 64 { i64::MIN } else { -(1i64 << (bits - 1)) };
        match tok {
            0 => 0,
            2 => min,
            _ => {
                let u = self.unsigned(kind, tok, bits - 1) as i64; // 1 ..= max-1 of the positive range
                if tok == 1 {
                    -u
                } else {
                    u
                }
            }
        }
    }

    pub fn leaf(&self, kind: &str, tok: u64) -> Result<Value, String> {
        Ok(match kind {
            "Bool" => Value::Bool(tok % 2 == 1),
            "U8" => Value::U8(self.unsigned(kind, tok, 8) as u8),
            "I8" => Value::I8(self.signed(kind, tok, 8) as i8),
            "U16" => Value::U16(self.unsigned(kind, tok, 16) as u16),
            "I16" => Value::I16(self.signed(kind, tok, 16) as i16),
            "U32" => Value::U32(self.unsigned(kind, tok, 32) as u32),
            "I32" => Value::I32(self.signed(kind, tok, 32) as i32),
            "U64" => Value::U64(self.unsigned(kind, tok, 64)),
            "I64" => Value::I64(self.signed(kind, tok, 64)),
            "F32" => Value::F32(match tok {
                0 => 0.0,
                2 => f32::MIN,
                _ => (self.rnd(kind, tok) % 1_000_000) as f32 / 8.0 + 0.5,
            }),
            "F64" => Value::F64(match tok {
                0 => -0.0,
                2 => f64::MIN_POSITIVE,
                _ => (self.rnd(kind, tok) % 1_000_000_000) as f64 / 1024.0 + 0.25,
            }),
            "String" => Value::String(self.string(kind, tok)),
            "Uuid" => Value::Uuid(self.uuid(kind, tok)),
            "ObjectId" => Value::ObjectId(ObjectId::new(
                ObjectUuid(self.uuid("ObjU", tok)),
                ObjectCookie(self.uuid("ObjC", tok + 1)),
            )),
            "ServiceId" => Value::ServiceId(ServiceId::new(
                ObjectId::new(ObjectUuid(self.uuid("ObjU", tok)), ObjectCookie(self.uuid("ObjC", tok + 1))),
                ServiceUuid(self.uuid("SvcU", tok)),
                ServiceCookie(self.uuid("SvcC", tok + 3)),
            )),
            "Bytes" => Value::Bytes(Bytes(match tok {
                0 => Vec::new(),
                2 => (0..300u32).map(|i| (i * 7 % 256) as u8).collect(),
                _ => (0..(1 + self.rnd(kind, tok) % 9)).map(|i| self.rnd(kind, tok + i + 7) as u8).collect(),
            })),
            "Sender" => Value::Sender(ChannelCookie(self.uuid("Snd", tok))),
            "Receiver" => Value::Receiver(ChannelCookie(self.uuid("Rcv", tok))),
            _ => return Err(format!("unknown leaf kind {kind}")),
        })
    }
}

fn get<'a>(j: &'a Json, k: &str) -> Result<&'a Json, String> {
    j.get(k).ok_or_else(|| format!("missing key {k} in {j}"))
}

fn as_u64(j: &Json) -> Result<u64, String> {
    j.as_u64().ok_or_else(|| format!("not an unsigned integer: {j}"))
}

fn arr(j: &Json) -> Result<&Vec<Json>, String> {
    j.as_array().ok_or_else(|| format!("not an array: {j}"))
}

macro_rules! keyed {
    ($toks:expr, $kk:expr, $body:ident, $j:expr) => {
        match $kk {
            "U8" => $body!($toks, $j, U8Map, U8Set, |t: &Tokens, x| t.unsigned("KU8", x, 8) as u8),
            "I8" => $body!($toks, $j, I8Map, I8Set, |t: &Tokens, x| t.signed("KI8", x, 8) as i8),
            "U16" => $body!($toks, $j, U16Map, U16Set, |t: &Tokens, x| t.unsigned("KU16", x, 16) as u16),
            "I16" => $body!($toks, $j, I16Map, I16Set, |t: &Tokens, x| t.signed("KI16", x, 16) as i16),
            "U32" => $body!($toks, $j, U32Map, U32Set, |t: &Tokens, x| t.unsigned("KU32", x, 32) as u32),
            "I32" => $body!($toks, $j, I32Map, I32Set, |t: &Tokens, x| t.signed("KI32", x, 32) as i32),
            "U64" => $body!($toks, $j, U64Map, U64Set, |t: &Tokens, x| t.unsigned("KU64", x, 64)),
            "I64" => $body!($toks, $j, I64Map, I64Set, |t: &Tokens, x| t.signed("KI64", x, 64)),
            "String" => $body!($toks, $j, StringMap, StringSet, |t: &Tokens, x| t.string("KStr", x)),
            "Uuid" => $body!($toks, $j, UuidMap, UuidSet, |t: &Tokens, x| t.uuid("KUuid", x)),
            other => Err(format!("unknown key kind {other}")),
        }
    };
}

macro_rules! map_body {
    ($toks:expr, $j:expr, $map:ident, $set:ident, $key:expr) => {{
        let mut m = HashMap::new();
        for e in arr(get($j, "m")?)? {
            let e = arr(e)?;
            let k = ($key)($toks, as_u64(&e[0])?);
            if m.insert(k, value($toks, &e[1])?).is_some() {
                return Err("key tokens collide".to_owned());
            }
        }
        Ok(Value::$map(m))
    }};
}

macro_rules! set_body {
    ($toks:expr, $j:expr, $map:ident, $set:ident, $key:expr) => {{
        let mut s = HashSet::new();
        for e in arr(get($j, "s")?)? {
            if !s.insert(($key)($toks, as_u64(e)?)) {
                return Err("key tokens collide".to_owned());
            }
        }
        Ok(Value::$set(s))
    }};
}

/// The concrete `Value` denoted by an exported model value.
pub fn value(toks: &Tokens, j: &Json) -> Result<Value, String> {
    let k = get(j, "k")?.as_str().ok_or("k is not a string")?;
    match k {
        "None" => Ok(Value::None),
        "Some" => Ok(Value::Some(Box::new(value(toks, get(j, "v")?)?))),
        "Vec" => arr(get(j, "e")?)?.iter().map(|e| value(toks, e)).collect::<Result<Vec<_>, _>>().map(Value::Vec),
        "Map" => {
            let kk = get(j, "kk")?.as_str().ok_or("kk is not a string")?;
            keyed!(toks, kk, map_body, j)
        }
        "Set" => {
            let kk = get(j, "kk")?.as_str().ok_or("kk is not a string")?;
            keyed!(toks, kk, set_body, j)
        }
        "Struct" => {
            let mut m = HashMap::new();
            for e in arr(get(j, "f")?)? {
                let e = arr(e)?;
                m.insert(as_u64(&e[0])? as u32, value(toks, &e[1])?);
            }
            Ok(Value::Struct(Struct(m)))
        }
        "Enum" => Ok(Value::Enum(Box::new(Enum::new(as_u64(get(j, "id")?)? as u32, value(toks, get(j, "v")?)?)))),
        leaf => toks.leaf(leaf, as_u64(get(j, "x")?)?),
    }
}

/// A value is non-trivial when it is not a bare leaf.
pub fn nontrivial(j: &Json) -> bool {
    matches!(j.get("k").and_then(Json::as_str), Some("Some" | "Vec" | "Map" | "Set" | "Struct" | "Enum"))
}

/// Does the value contain a container whose encoding differs between the two epochs?
pub fn has_container(v: &Value) -> bool {
    match v {
        Value::Some(v) => has_container(v),
        Value::Enum(e) => has_container(&e.value),
        Value::Vec(_) | Value::Bytes(_) | Value::Struct(_) => true,
        Value::None
        | Value::Bool(_)
        | Value::U8(_)
        | Value::I8(_)
        | Value::U16(_)
        | Value::I16(_)
        | Value::U32(_)
        | Value::I32(_)
        | Value::U64(_)
        | Value::I64(_)
        | Value::F32(_)
        | Value::F64(_)
        | Value::String(_)
        | Value::Uuid(_)
        | Value::ObjectId(_)
        | Value::ServiceId(_)
        | Value::Sender(_)
        | Value::Receiver(_) => false,
        _ => true, // maps and sets
    }
}
