fn main() {}
